// Package patref is a reference implementation of Lua 5.4 patterns (manual
// §6.4.1) and of string.find / match / gmatch / gsub (§6.4), written from the
// manual's definitions as a plain recursive backtracking matcher over bytes.
// It shares no code and no structure with golua's lib/stringlib/pattern (which
// compiles to items with 256-bit sets and runs an explicit trackback stack).
//
// Where the manual leaves a pattern's meaning open (e.g. "[%a-z]", "%bxx",
// "%y" for an alphanumeric y that names no class, a back-reference to a
// position capture) the parser still produces the reference implementation's
// reading but lists the reasons in Pattern.Unspecified, so that a check can
// restrict itself to "must not crash" for those.
package patref

import (
	"errors"
	"fmt"
	"strconv"
	"strings"
)

// MaxCaptures is LUA_MAXCAPTURES of the reference implementation.
const MaxCaptures = 32

// ---------------------------------------------------------------------------
// character classes (C locale)

func isAlpha(c byte) bool  { return (c >= 'a' && c <= 'z') || (c >= 'A' && c <= 'Z') }
func isDigit(c byte) bool  { return c >= '0' && c <= '9' }
func isLower(c byte) bool  { return c >= 'a' && c <= 'z' }
func isUpper(c byte) bool  { return c >= 'A' && c <= 'Z' }
func isAlnum(c byte) bool  { return isAlpha(c) || isDigit(c) }
func isCntrl(c byte) bool  { return c < 32 || c == 127 }
func isGraph(c byte) bool  { return c > 32 && c < 127 }
func isPunct(c byte) bool  { return isGraph(c) && !isAlnum(c) }
func isSpace(c byte) bool  { return c == ' ' || (c >= 9 && c <= 13) }
func isXDigit(c byte) bool { return isDigit(c) || (c >= 'a' && c <= 'f') || (c >= 'A' && c <= 'F') }

// classOf returns the predicate for the class letter cl of "%cl" (lower
// case), or nil if cl names no class of the manual.
func classOf(cl byte) func(byte) bool {
	switch cl {
	case 'a':
		return isAlpha
	case 'c':
		return isCntrl
	case 'd':
		return isDigit
	case 'g':
		return isGraph
	case 'l':
		return isLower
	case 'p':
		return isPunct
	case 's':
		return isSpace
	case 'u':
		return isUpper
	case 'w':
		return isAlnum
	case 'x':
		return isXDigit
	}
	return nil
}

// Set is a set of bytes.
type Set [256]bool

func (s *Set) addClass(f func(byte) bool, negate bool) {
	for c := 0; c < 256; c++ {
		if f(byte(c)) != negate {
			s[c] = true
		}
	}
}

// ---------------------------------------------------------------------------
// pattern syntax

type kind byte

const (
	kSingle   kind = iota // single character class with optional quantifier
	kBackref              // %n
	kBalance              // %bxy
	kFrontier             // %f[set]
	kOpen                 // (
	kPos                  // ()
	kClose                // )
)

type item struct {
	kind kind
	set  *Set
	q    byte // 0, '*', '+', '-', '?'
	n    int  // capture index (0-based)
	x, y byte
}

// Pattern is a parsed pattern.
type Pattern struct {
	Src         string
	AnchorStart bool
	AnchorEnd   bool
	NCap        int
	items       []item
	// Unspecified lists reasons why the manual does not define the meaning
	// of this pattern (the reference implementation's reading is parsed).
	Unspecified []string
	// features for the non-trivial rule
	HasCapture, HasBackref, HasBalance, HasFrontier, HasQuant, HasSet bool
	// BracketRange: some set has a range whose lower end is the leading ']'
	// ("[]-a]").
	BracketRange bool
}

// Special reports whether the pattern uses a capture, back-reference, %b, %f
// or an anchor.
func (p *Pattern) Special() bool {
	return p.HasCapture || p.HasBackref || p.HasBalance || p.HasFrontier || p.AnchorStart || p.AnchorEnd
}

// ErrMalformed is the class of all pattern syntax errors.
type ErrMalformed struct{ Msg string }

func (e *ErrMalformed) Error() string { return e.Msg }

func malformed(format string, a ...any) error { return &ErrMalformed{fmt.Sprintf(format, a...)} }

type parser struct {
	src   string
	pat   *Pattern
	open  []int  // stack of open capture indices
	state []int8 // per capture: 0 open, 1 closed, 2 position
}

func (ps *parser) unspec(reason string) {
	for _, r := range ps.pat.Unspecified {
		if r == reason {
			return
		}
	}
	ps.pat.Unspecified = append(ps.pat.Unspecified, reason)
}

// ParseOpts selects the reading of a leading '^'.
type ParseOpts struct {
	// CaretLiteral: a leading '^' is an ordinary character (string.gmatch:
	// "a '^' at the start of a pattern does not work as an anchor").
	CaretLiteral bool
}

// Parse parses a pattern for find/match/gsub.
func Parse(src string) (*Pattern, error) { return ParseWith(src, ParseOpts{}) }

// ParseWith parses a pattern. A malformed pattern gives *ErrMalformed.
func ParseWith(src string, o ParseOpts) (*Pattern, error) {
	ps := &parser{src: src, pat: &Pattern{Src: src}}
	i := 0
	if !o.CaretLiteral && len(src) > 0 && src[0] == '^' {
		ps.pat.AnchorStart = true
		i = 1
	}
	for i < len(src) {
		var err error
		i, err = ps.item(i)
		if err != nil {
			return nil, err
		}
	}
	if len(ps.open) > 0 {
		return nil, malformed("unfinished capture")
	}
	ps.pat.NCap = len(ps.state)
	return ps.pat, nil
}

func (ps *parser) item(i int) (int, error) {
	src := ps.src
	c := src[i]
	switch c {
	case '(':
		if len(ps.state) >= MaxCaptures {
			return 0, malformed("too many captures")
		}
		ps.pat.HasCapture = true
		n := len(ps.state)
		if i+1 < len(src) && src[i+1] == ')' {
			ps.state = append(ps.state, 2)
			ps.pat.items = append(ps.pat.items, item{kind: kPos, n: n})
			return i + 2, nil
		}
		ps.state = append(ps.state, 0)
		ps.open = append(ps.open, n)
		ps.pat.items = append(ps.pat.items, item{kind: kOpen, n: n})
		return i + 1, nil
	case ')':
		if len(ps.open) == 0 {
			return 0, malformed("invalid pattern capture")
		}
		n := ps.open[len(ps.open)-1]
		ps.open = ps.open[:len(ps.open)-1]
		ps.state[n] = 1
		ps.pat.items = append(ps.pat.items, item{kind: kClose, n: n})
		return i + 1, nil
	case '$':
		if i+1 == len(src) {
			ps.pat.AnchorEnd = true
			return i + 1, nil
		}
	case '%':
		if i+1 >= len(src) {
			return 0, malformed("malformed pattern (ends with '%%')")
		}
		d := src[i+1]
		switch {
		case d == 'b':
			if i+3 >= len(src) {
				return 0, malformed("malformed pattern (missing arguments to '%%b')")
			}
			x, y := src[i+2], src[i+3]
			if x == y {
				ps.unspec("%b with equal delimiters")
			}
			ps.pat.HasBalance = true
			ps.pat.items = append(ps.pat.items, item{kind: kBalance, x: x, y: y})
			return i + 4, nil
		case d == 'f':
			if i+2 >= len(src) || src[i+2] != '[' {
				return 0, malformed("missing '[' after '%%f' in pattern")
			}
			set, j, err := ps.set(i + 2)
			if err != nil {
				return 0, err
			}
			ps.pat.HasFrontier = true
			ps.pat.items = append(ps.pat.items, item{kind: kFrontier, set: set})
			return j, nil
		case isDigit(d):
			n := int(d-'0') - 1
			if n < 0 || n >= len(ps.state) || ps.state[n] == 0 {
				return 0, malformed("invalid capture index %%%d", n+1)
			}
			if ps.state[n] == 2 {
				ps.unspec("back-reference to a position capture")
			}
			ps.pat.HasBackref = true
			ps.pat.items = append(ps.pat.items, item{kind: kBackref, n: n})
			return i + 2, nil
		}
	}
	// single character class, optional quantifier
	set, j, err := ps.single(i)
	if err != nil {
		return 0, err
	}
	it := item{kind: kSingle, set: set}
	if j < len(src) {
		switch src[j] {
		case '*', '+', '-', '?':
			it.q = src[j]
			ps.pat.HasQuant = true
			j++
		}
	}
	ps.pat.items = append(ps.pat.items, it)
	return j, nil
}

// escape gives the set for "%c" (c is the character after the '%').
func (ps *parser) escape(c byte, into *Set) {
	lower := c | 0x20
	if isAlpha(c) {
		if f := classOf(lower); f != nil {
			into.addClass(f, isUpper(c))
			return
		}
		if lower == 'z' {
			ps.unspec("%z (deprecated, not in the 5.4 manual)")
			into.addClass(func(b byte) bool { return b == 0 }, isUpper(c))
			return
		}
	}
	if isAlnum(c) {
		ps.unspec("%x with an alphanumeric x that names no class")
	}
	into[c] = true
}

// single parses a single character class starting at i.
func (ps *parser) single(i int) (*Set, int, error) {
	src := ps.src
	set := &Set{}
	switch src[i] {
	case '.':
		for c := range set {
			set[c] = true
		}
		return set, i + 1, nil
	case '%':
		if i+1 >= len(src) {
			return nil, 0, malformed("malformed pattern (ends with '%%')")
		}
		ps.escape(src[i+1], set)
		return set, i + 2, nil
	case '[':
		return ps.set(i)
	}
	set[src[i]] = true
	return set, i + 1, nil
}

// set parses "[...]" starting at the '['.
func (ps *parser) set(i int) (*Set, int, error) {
	src := ps.src
	ps.pat.HasSet = true
	j := i + 1
	neg := false
	if j < len(src) && src[j] == '^' {
		neg = true
		j++
	}
	start := j
	// find the closing bracket: the first character of the set is never the
	// closing one; '%' escapes the next character
	for first := true; ; first = false {
		if j >= len(src) {
			return nil, 0, malformed("malformed pattern (missing ']')")
		}
		if !first && src[j] == ']' {
			break
		}
		if src[j] == '%' {
			j++
			if j >= len(src) {
				return nil, 0, malformed("malformed pattern (missing ']')")
			}
		}
		j++
	}
	end := j // index of the closing ']'
	set := &Set{}
	for k := start; k < end; k++ {
		c := src[k]
		switch {
		case c == '%':
			k++
			ps.escape(src[k], set)
			if k+2 < end && src[k+1] == '-' {
				ps.unspec("class or escape followed by '-' inside a set")
			}
		case k+2 < end && src[k+1] == '-':
			lo, hi := c, src[k+2]
			if k == start && c == ']' {
				ps.pat.BracketRange = true
			}
			if hi == '%' {
				ps.unspec("range ending in '%'")
			}
			if hi < lo {
				ps.unspec("descending range")
			}
			for b := int(lo); b <= int(hi); b++ {
				set[b] = true
			}
			k += 2
		default:
			set[c] = true
		}
	}
	if neg {
		for c := range set {
			set[c] = !set[c]
		}
	}
	return set, end + 1, nil
}

// ---------------------------------------------------------------------------
// matching

// Cap is a capture of a successful match: the bytes [Start,End) of the
// subject (0-based), or the position Start+1 if Pos.
type Cap struct {
	Start, End int
	Pos        bool
}

// Result is the outcome of a match attempt / search.
type Result struct {
	OK         bool
	Start, End int // 0-based [Start,End)
	Caps       []Cap
}

// Stats accumulates the work done by the reference matcher.
type Stats struct {
	Steps      int64 // calls of the recursive matcher
	Backtracks int64 // alternatives tried after a first alternative failed
	// RejectedEmpty counts the matches a gmatch/gsub iteration did not accept
	// because they ended where the previous accepted match ended.
	RejectedEmpty int64
	// GSub: WrittenEnd is the end (0-based, exclusive) of the last match whose
	// replacement value was not false/nil (-1: none) and WrittenOutLen the
	// length of the result built up to and including that replacement.
	WrittenEnd    int
	WrittenOutLen int
}

// ErrBudget is returned (via panic/recover inside) when the step budget is exhausted.
var ErrBudget = errors.New("patref: step budget exhausted")

type matcher struct {
	p      *Pattern
	s      string
	start  [MaxCaptures]int
	length [MaxCaptures]int // -1 unfinished, -2 position
	st     *Stats
	budget int64
}

const (
	capUnfinished = -1
	capPosition   = -2
)

func (m *matcher) step() {
	m.st.Steps++
	if m.budget > 0 && m.st.Steps > m.budget {
		panic(ErrBudget)
	}
}

// match tries to match items[i:] at pos; returns the end of the match or -1.
func (m *matcher) match(i, pos int) int {
	m.step()
	p := m.p
	if i == len(p.items) {
		if p.AnchorEnd && pos != len(m.s) {
			return -1
		}
		return pos
	}
	it := &p.items[i]
	s := m.s
	switch it.kind {
	case kSingle:
		in := func(k int) bool { return k < len(s) && it.set[s[k]] }
		switch it.q {
		case 0:
			if in(pos) {
				return m.match(i+1, pos+1)
			}
			return -1
		case '?':
			if in(pos) {
				if e := m.match(i+1, pos+1); e >= 0 {
					return e
				}
				m.st.Backtracks++
			}
			return m.match(i+1, pos)
		case '*', '+':
			min := 0
			if it.q == '+' {
				min = 1
			}
			n := 0
			for in(pos + n) {
				n++
				m.step()
			}
			for k := n; k >= min; k-- {
				if e := m.match(i+1, pos+k); e >= 0 {
					return e
				}
				if k > min {
					m.st.Backtracks++
				}
			}
			return -1
		case '-':
			for k := 0; ; k++ {
				if e := m.match(i+1, pos+k); e >= 0 {
					return e
				}
				if !in(pos + k) {
					return -1
				}
				m.st.Backtracks++
			}
		}
	case kOpen, kPos:
		m.start[it.n] = pos
		if it.kind == kPos {
			m.length[it.n] = capPosition
		} else {
			m.length[it.n] = capUnfinished
		}
		return m.match(i+1, pos)
	case kClose:
		m.length[it.n] = pos - m.start[it.n]
		e := m.match(i+1, pos)
		if e < 0 {
			m.length[it.n] = capUnfinished
		}
		return e
	case kBackref:
		l := m.length[it.n]
		if l < 0 {
			// position capture: there is no captured string to compare with
			return -1
		}
		st := m.start[it.n]
		if pos+l <= len(s) && s[st:st+l] == s[pos:pos+l] {
			return m.match(i+1, pos+l)
		}
		return -1
	case kBalance:
		if pos >= len(s) || s[pos] != it.x {
			return -1
		}
		depth := 1
		for k := pos + 1; k < len(s); k++ {
			m.step()
			if s[k] == it.y {
				depth--
				if depth == 0 {
					return m.match(i+1, k+1)
				}
			} else if s[k] == it.x {
				depth++
			}
		}
		return -1
	case kFrontier:
		var prev, next byte
		if pos > 0 {
			prev = s[pos-1]
		}
		if pos < len(s) {
			next = s[pos]
		}
		if !it.set[prev] && it.set[next] {
			return m.match(i+1, pos)
		}
		return -1
	}
	panic("patref: bad item")
}

func (m *matcher) result(start, end int) Result {
	r := Result{OK: true, Start: start, End: end}
	for n := 0; n < m.p.NCap; n++ {
		if m.length[n] == capPosition {
			r.Caps = append(r.Caps, Cap{Start: m.start[n], End: m.start[n], Pos: true})
		} else {
			r.Caps = append(r.Caps, Cap{Start: m.start[n], End: m.start[n] + m.length[n]})
		}
	}
	return r
}

// MatchAt attempts a match starting exactly at pos (0-based, 0 <= pos <= len(s)).
// budget > 0 bounds the reference's steps (ErrBudget).
func (p *Pattern) MatchAt(s string, pos int, st *Stats, budget int64) (r Result, err error) {
	if st == nil {
		st = &Stats{}
	}
	m := &matcher{p: p, s: s, st: st, budget: budget}
	defer func() {
		if x := recover(); x != nil {
			if x == ErrBudget {
				r, err = Result{}, ErrBudget
				return
			}
			panic(x)
		}
	}()
	if e := m.match(0, pos); e >= 0 {
		return m.result(pos, e), nil
	}
	return Result{}, nil
}

// Search finds the leftmost match starting at or after from (0-based). With
// anchored (a leading '^' honoured) only from itself is tried.
func (p *Pattern) Search(s string, from int, st *Stats, budget int64) (Result, error) {
	if st == nil {
		st = &Stats{}
	}
	for pos := from; pos <= len(s); pos++ {
		// the budget bounds the shared step counter st.Steps
		r, err := p.MatchAt(s, pos, st, budget)
		if err != nil || r.OK {
			return r, err
		}
		if p.AnchorStart {
			break
		}
	}
	return Result{}, nil
}

// ---------------------------------------------------------------------------
// Lua values and canonical text (same spelling as harness.Canon.EncValue)

// Val is a Lua value of the kinds the string functions return or receive.
type Val struct {
	K byte // 'n' nil, 's' string, 'i' integer, 'b' false/true
	S string
	I int64
}

var Nil = Val{K: 'n'}

func Str(s string) Val { return Val{K: 's', S: s} }
func Int(i int64) Val  { return Val{K: 'i', I: i} }
func Bool(b bool) Val {
	if b {
		return Val{K: 'b', I: 1}
	}
	return Val{K: 'b'}
}

func (v Val) String() string {
	switch v.K {
	case 'n':
		return "nil"
	case 's':
		return "s:" + strconv.Quote(v.S)
	case 'i':
		return "i:" + strconv.FormatInt(v.I, 10)
	case 'b':
		if v.I != 0 {
			return "true"
		}
		return "false"
	}
	return "?"
}

// Enc spells a value list like harness.Canon.EncValues.
func Enc(vs []Val) string {
	var sb strings.Builder
	for i, v := range vs {
		if i > 0 {
			sb.WriteByte(' ')
		}
		sb.WriteString(v.String())
	}
	return sb.String()
}

func capVal(s string, c Cap) Val {
	if c.Pos {
		return Int(int64(c.Start) + 1)
	}
	return Str(s[c.Start:c.End])
}

// captures returns the values of all captures, or the whole match if the
// pattern has none and whole is set.
func captures(s string, r Result, whole bool) []Val {
	if len(r.Caps) == 0 {
		if whole {
			return []Val{Str(s[r.Start:r.End])}
		}
		return nil
	}
	out := make([]Val, len(r.Caps))
	for i, c := range r.Caps {
		out[i] = capVal(s, c)
	}
	return out
}

// NormInit turns the init argument of find/match/gmatch into a 0-based start
// offset; ok is false when the start lies beyond len+1 ("fail").
func NormInit(slen int, init int64) (from int, ok bool) {
	l := int64(slen)
	var pos int64
	switch {
	case init > 0:
		pos = init
	case init == 0:
		pos = 1
	case init < -l:
		pos = 1
	default:
		pos = l + init + 1
	}
	if pos-1 > l {
		return slen + 1, false
	}
	return int(pos - 1), true
}

// ---------------------------------------------------------------------------
// reference drivers

// Find is string.find(s, p, init, plain). The result is the list of returned
// values (a single nil for "fail").
func Find(s, p string, init int64, plain bool, st *Stats, budget int64) ([]Val, error) {
	if plain {
		return FindPlain(s, p, init), nil
	}
	pat, err := Parse(p)
	if err != nil {
		return nil, err
	}
	return pat.Find(s, init, st, budget)
}

// FindPlain is string.find(s, p, init, true).
func FindPlain(s, p string, init int64) []Val {
	from, ok := NormInit(len(s), init)
	if !ok {
		return []Val{Nil}
	}
	k := strings.Index(s[from:], p)
	if k < 0 {
		return []Val{Nil}
	}
	return []Val{Int(int64(from + k + 1)), Int(int64(from + k + len(p)))}
}

// Find is string.find(s, pat, init) for a parsed pattern.
func (pat *Pattern) Find(s string, init int64, st *Stats, budget int64) ([]Val, error) {
	from, ok := NormInit(len(s), init)
	if !ok {
		return []Val{Nil}, nil
	}
	r, err := pat.Search(s, from, st, budget)
	if err != nil {
		return nil, err
	}
	if !r.OK {
		return []Val{Nil}, nil
	}
	out := []Val{Int(int64(r.Start) + 1), Int(int64(r.End))}
	return append(out, captures(s, r, false)...), nil
}

// Match is string.match(s, p, init).
func Match(s, p string, init int64, st *Stats, budget int64) ([]Val, error) {
	pat, err := Parse(p)
	if err != nil {
		return nil, err
	}
	return pat.Match(s, init, st, budget)
}

// Match is string.match(s, pat, init) for a parsed pattern.
func (pat *Pattern) Match(s string, init int64, st *Stats, budget int64) ([]Val, error) {
	from, ok := NormInit(len(s), init)
	if !ok {
		return []Val{Nil}, nil
	}
	r, err := pat.Search(s, from, st, budget)
	if err != nil {
		return nil, err
	}
	if !r.OK {
		return []Val{Nil}, nil
	}
	return captures(s, r, true), nil
}

// iterate enumerates the successive matches of gmatch/gsub (Lua 5.4 rule: a
// match is not accepted if it ends where the previous accepted match ended).
// visit returns false to stop.
func iterate(pat *Pattern, s string, from int, st *Stats, budget int64, visit func(r Result) bool) error {
	if st == nil {
		st = &Stats{}
	}
	src := from
	last := -1
	for src <= len(s) {
		r, err := pat.MatchAt(s, src, st, budget)
		if err != nil {
			return err
		}
		if r.OK && r.End != last {
			src, last = r.End, r.End
			if !visit(r) {
				return nil
			}
		} else {
			if r.OK {
				st.RejectedEmpty++
			}
			src++
		}
		if pat.AnchorStart {
			break
		}
	}
	return nil
}

// GMatchCaret selects the reading of a leading '^' in gmatch.
type GMatchCaret int

const (
	CaretLiteral GMatchCaret = iota // an ordinary character (reference implementation)
	CaretIgnored                    // dropped: the rest of the pattern, unanchored
)

// ParseGMatch parses p the way string.gmatch reads it under the given reading
// of a leading '^'.
func ParseGMatch(p string, caret GMatchCaret) (*Pattern, error) {
	if caret == CaretIgnored && len(p) > 0 && p[0] == '^' {
		return ParseWith(p[1:], ParseOpts{CaretLiteral: true})
	}
	return ParseWith(p, ParseOpts{CaretLiteral: true})
}

// GMatch is the full iteration of string.gmatch(s, p, init): the list of value
// tuples the iterator returns.
func GMatch(s, p string, init int64, caret GMatchCaret, st *Stats, budget int64) ([][]Val, error) {
	pat, err := ParseGMatch(p, caret)
	if err != nil {
		return nil, err
	}
	return pat.GMatch(s, init, st, budget)
}

// GMatch iterates a pattern parsed by ParseGMatch.
func (pat *Pattern) GMatch(s string, init int64, st *Stats, budget int64) ([][]Val, error) {
	from, _ := NormInit(len(s), init) // beyond the end: len+1, no iteration
	var out [][]Val
	err := iterate(pat, s, from, st, budget, func(r Result) bool {
		out = append(out, captures(s, r, true))
		return true
	})
	return out, err
}

// Repl is the replacement argument of gsub.
type Repl struct {
	Kind byte                 // 's' string, 't' table, 'f' function
	S    string               // replacement string
	T    func(key Val) Val    // table lookup (Nil if absent)
	F    func(args []Val) Val // function
}

// ErrRepl is an error raised by gsub that is not a pattern syntax error.
type ErrRepl struct{ Msg string }

func (e *ErrRepl) Error() string { return e.Msg }

func expand(repl string, s string, r Result) (string, error) {
	var sb strings.Builder
	for i := 0; i < len(repl); i++ {
		c := repl[i]
		if c != '%' {
			sb.WriteByte(c)
			continue
		}
		i++
		if i >= len(repl) {
			return "", &ErrRepl{"invalid use of '%' in replacement string"}
		}
		d := repl[i]
		switch {
		case d == '%':
			sb.WriteByte('%')
		case d == '0':
			sb.WriteString(s[r.Start:r.End])
		case isDigit(d):
			n := int(d - '1')
			switch {
			case n < len(r.Caps):
				v := capVal(s, r.Caps[n])
				if v.K == 'i' {
					sb.WriteString(strconv.FormatInt(v.I, 10))
				} else {
					sb.WriteString(v.S)
				}
			case n == 0 && len(r.Caps) == 0:
				sb.WriteString(s[r.Start:r.End])
			default:
				return "", &ErrRepl{fmt.Sprintf("invalid capture index %%%d in replacement string", n+1)}
			}
		default:
			return "", &ErrRepl{"invalid use of '%' in replacement string"}
		}
	}
	return sb.String(), nil
}

// GSub is string.gsub(s, p, repl, n); hasN false means n absent.
func GSub(s, p string, repl Repl, n int64, hasN bool, st *Stats, budget int64) (string, int64, error) {
	pat, err := Parse(p)
	if err != nil {
		return "", 0, err
	}
	return pat.GSub(s, repl, n, hasN, st, budget)
}

// GSub is string.gsub for a parsed pattern.
func (pat *Pattern) GSub(s string, repl Repl, n int64, hasN bool, st *Stats, budget int64) (string, int64, error) {
	var err error
	if st == nil {
		st = &Stats{}
	}
	st.WrittenEnd, st.WrittenOutLen = -1, 0
	max := int64(len(s)) + 1
	if hasN {
		max = n
	}
	var sb strings.Builder
	var count int64
	var rerr error
	copied := 0 // bytes of s already copied or replaced
	if max > 0 {
		err = iterate(pat, s, 0, st, budget, func(r Result) bool {
			count++
			sb.WriteString(s[copied:r.Start])
			copied = r.End
			var v Val
			switch repl.Kind {
			case 's':
				str, e := expand(repl.S, s, r)
				if e != nil {
					rerr = e
					return false
				}
				v = Str(str)
			case 't':
				v = repl.T(captures(s, r, true)[0])
			case 'f':
				v = repl.F(captures(s, r, true))
			}
			switch {
			case v.K == 'n' || (v.K == 'b' && v.I == 0):
				sb.WriteString(s[r.Start:r.End])
			case v.K == 's':
				sb.WriteString(v.S)
				st.WrittenEnd, st.WrittenOutLen = r.End, sb.Len()
			case v.K == 'i':
				sb.WriteString(strconv.FormatInt(v.I, 10))
				st.WrittenEnd, st.WrittenOutLen = r.End, sb.Len()
			default:
				rerr = &ErrRepl{"invalid replacement value"}
				return false
			}
			return count < max
		})
		if err != nil {
			return "", 0, err
		}
		if rerr != nil {
			return "", 0, rerr
		}
	}
	sb.WriteString(s[copied:])
	return sb.String(), count, nil
}

// ClassSet returns the byte set of a pattern that consists of exactly one
// single character class without quantifier (".", "a", "%a", "[...]").
func ClassSet(src string) (*Set, bool) {
	pat, err := ParseWith(src, ParseOpts{CaretLiteral: true})
	if err != nil || pat.AnchorEnd || len(pat.items) != 1 || pat.items[0].kind != kSingle || pat.items[0].q != 0 {
		return nil, false
	}
	return pat.items[0].set, true
}
