// Package libref holds executable models of the non-pattern string functions
// (Lua 5.4 reference manual §6.4) and of the table functions (§6.6), written
// from the manual's definitions on byte strings and on integer-keyed maps.
// They never call golua. Positions are int64 with the manual's translation
// rules; everything that could overflow is computed with math/big.
package libref

import (
	"bytes"
	"errors"
	"fmt"
	"math"
	"math/big"
	"strconv"
)

// ---------------------------------------------------------------------------
// strings (§6.4): "Indices are allowed to be negative and are interpreted as
// indexing backwards, from the end of the string."

// translate maps a negative position to the position counted from the end
// (-1 is the last byte). The result may be <= 0. No overflow: p < 0 <= n.
func translate(p, n int64) int64 {
	if p < 0 {
		return n + p + 1
	}
	return p
}

// SubRange gives the corrected 1-based inclusive range of string.sub(s,i,j)
// for a string of length n: "If, after the translation of negative indices, i
// is less than 1, it is corrected to 1. If j is greater than the string
// length, it is corrected to that length. If, after these corrections, i is
// greater than j, the function returns the empty string."
func SubRange(n, i, j int64) (lo, hi int64, empty bool) {
	i = translate(i, n)
	j = translate(j, n)
	if i < 1 {
		i = 1
	}
	if j > n {
		j = n
	}
	if i > j {
		return 0, 0, true
	}
	return i, j, false
}

// Sub is string.sub(s, i, j); the caller passes j = -1 when it is absent.
func Sub(s []byte, i, j int64) []byte {
	lo, hi, empty := SubRange(int64(len(s)), i, j)
	if empty {
		return []byte{}
	}
	return append([]byte{}, s[lo-1:hi]...)
}

// Byte is string.byte(s, i, j): "the internal numeric codes of the characters
// s[i], s[i+1], ..., s[j]. The default value for i is 1; the default value for
// j is i. These indices are corrected following the same rules of function
// string.sub." The caller applies the defaults (j = i as given).
func Byte(s []byte, i, j int64) []int64 {
	lo, hi, empty := SubRange(int64(len(s)), i, j)
	out := []int64{}
	if empty {
		return out
	}
	for k := lo; k <= hi; k++ {
		out = append(out, int64(s[k-1]))
	}
	return out
}

// ErrDomain is an argument error that the function must raise.
var ErrDomain = errors.New("argument error")

// ErrHuge means the defined result is too large to be produced (or the
// defined loop too long to be run): raising an error or being stopped by a
// resource limit are the acceptable outcomes.
var ErrHuge = errors.New("result too large")

// ErrMid means the defined loop is longer than the model runs (MaxLoop) but
// short enough that an implementation may well complete it: no expectation.
var ErrMid = errors.New("between the model's bound and the impossible")

// HugeLoop is the number of element operations no run under the check's cpu
// budget can complete.
const HugeLoop = 10_000_000

func loopErr(count *big.Int) error {
	if count.Cmp(big.NewInt(HugeLoop)) > 0 {
		return ErrHuge
	}
	return ErrMid
}

// Char is string.char(...): "a string with length equal to the number of
// arguments, in which each character has the internal numeric code equal to
// its corresponding argument" — codes outside 0..255 are no character codes.
func Char(codes []int64) ([]byte, error) {
	out := make([]byte, 0, len(codes))
	for _, c := range codes {
		if c < 0 || c > 255 {
			return nil, ErrDomain
		}
		out = append(out, byte(c))
	}
	return out, nil
}

// RepLen is the length of string.rep(s, n, sep): n copies of s separated by
// sep; "" if n is not positive.
func RepLen(ls, lsep int, n int64) *big.Int {
	if n <= 0 {
		return new(big.Int)
	}
	bn := big.NewInt(n)
	a := new(big.Int).Mul(bn, big.NewInt(int64(ls)))
	b := new(big.Int).Mul(new(big.Int).Sub(bn, big.NewInt(1)), big.NewInt(int64(lsep)))
	return a.Add(a, b)
}

// MaxRep is the largest result the model builds.
const MaxRep = 1 << 16

// Rep is string.rep(s, n, sep): "a string that is the concatenation of n
// copies of the string s separated by the string sep. The default value for
// sep is the empty string. Returns the empty string if n is not positive."
func Rep(s []byte, n int64, sep []byte) ([]byte, error) {
	if n <= 0 {
		return []byte{}, nil
	}
	l := RepLen(len(s), len(sep), n)
	if l.Sign() == 0 {
		return []byte{}, nil
	}
	if l.Cmp(big.NewInt(MaxRep)) > 0 {
		return nil, ErrHuge
	}
	out := make([]byte, 0, l.Int64())
	for k := int64(0); k < n; k++ {
		if k > 0 {
			out = append(out, sep...)
		}
		out = append(out, s...)
	}
	return out, nil
}

func Reverse(s []byte) []byte {
	out := make([]byte, len(s))
	for i, c := range s {
		out[len(s)-1-i] = c
	}
	return out
}

// Upper / Lower: "all lowercase letters changed to uppercase. All other
// characters are left unchanged. The definition of what a lowercase letter is
// depends on the current locale." The locale of a Lua state is "C" unless
// os.setlocale changes it: exactly the 26 ASCII letters.
func Upper(s []byte) []byte {
	out := make([]byte, len(s))
	for i, c := range s {
		if c >= 'a' && c <= 'z' {
			c -= 'a' - 'A'
		}
		out[i] = c
	}
	return out
}

func Lower(s []byte) []byte {
	out := make([]byte, len(s))
	for i, c := range s {
		if c >= 'A' && c <= 'Z' {
			c += 'a' - 'A'
		}
		out[i] = c
	}
	return out
}

func Len(s []byte) int64 { return int64(len(s)) }

// FindInit is the 1-based position where string.find starts: init "can be
// negative" (counted from the end like every string position) and a position
// before the string is the start of the string.
func FindInit(n, init int64) int64 {
	init = translate(init, n)
	if init < 1 {
		init = 1
	}
	return init
}

// FindPlain is string.find(s, p, init, true): "a plain 'find substring'
// operation": the first occurrence of p in s at or after init, as (start,
// end) 1-based inclusive; the empty needle occurs at every position from 1 to
// #s+1 (giving end = start-1). A start position beyond #s+1 is outside the
// subject: no match.
func FindPlain(s, p []byte, init int64) (start, end int64, found bool) {
	n := int64(len(s))
	from := FindInit(n, init)
	if from > n+1 {
		return 0, 0, false
	}
	idx := bytes.Index(s[from-1:], p)
	if idx < 0 {
		return 0, 0, false
	}
	start = from + int64(idx)
	return start, start + int64(len(p)) - 1, true
}

// ---------------------------------------------------------------------------
// values and tables

// V is a Lua value as far as these models need it. Kind: 'n' nil, 'b'
// boolean, 'i' integer, 'f' float, 's' string, 't' table (identity T).
type V struct {
	Kind byte
	B    bool
	I    int64
	F    float64
	S    string
	T    int
}

var Nil = V{Kind: 'n'}

func Int(i int64) V     { return V{Kind: 'i', I: i} }
func Float(f float64) V { return V{Kind: 'f', F: f} }
func Str(s string) V    { return V{Kind: 's', S: s} }
func Bool(b bool) V     { return V{Kind: 'b', B: b} }
func TableID(id int) V  { return V{Kind: 't', T: id} }
func (v V) IsNil() bool { return v.Kind == 'n' || v.Kind == 0 }
func (v V) String() string {
	switch v.Kind {
	case 'i':
		return strconv.FormatInt(v.I, 10)
	case 'f':
		return strconv.FormatFloat(v.F, 'g', -1, 64) + "(float)"
	case 's':
		return strconv.Quote(v.S)
	case 'b':
		return strconv.FormatBool(v.B)
	case 't':
		return fmt.Sprintf("table#%d", v.T)
	}
	return "nil"
}

// Tab is a table restricted to integer keys (all that the table library
// touches, apart from pack's "n"). A missing key is nil.
type Tab map[int64]V

func (t Tab) Get(k int64) V {
	if v, ok := t[k]; ok {
		return v
	}
	return Nil
}

func (t Tab) Set(k int64, v V) {
	if v.IsNil() {
		delete(t, k)
	} else {
		t[k] = v
	}
}

func (t Tab) Clone() Tab {
	c := make(Tab, len(t))
	for k, v := range t {
		c[k] = v
	}
	return c
}

var (
	bigMaxInt = big.NewInt(math.MaxInt64)
	bigOne    = big.NewInt(1)
)

// MaxLoop bounds the loops the model runs; longer defined loops are ErrHuge.
const MaxLoop = 20000

// Insert is table.insert(list, [pos,] value) on a list of length n (= #list):
// "Inserts element value at position pos in list, shifting up the elements
// list[pos], list[pos+1], ..., list[#list]. The default value for pos is
// #list+1". pos must be in [1, #list+1] (the reference implementation's
// "position out of bounds"; the manual defines nothing else).
func Insert(t Tab, n int64, hasPos bool, pos int64, v V) error {
	if !hasPos {
		if n == math.MaxInt64 {
			return ErrDomain
		}
		t.Set(n+1, v)
		return nil
	}
	if n == math.MaxInt64 || pos < 1 || pos > n+1 {
		return ErrDomain
	}
	if n-pos > MaxLoop {
		return ErrMid
	}
	for k := n; k >= pos; k-- {
		t.Set(k+1, t.Get(k))
	}
	t.Set(pos, v)
	return nil
}

// Remove is table.remove(list [, pos]) with n = #list: "Removes from list the
// element at position pos, returning the value of the removed element. When
// pos is an integer between 1 and #list, it shifts down the elements
// list[pos+1], list[pos+2], ..., list[#list] and erases element list[#list];
// The index pos can also be 0 when #list is 0, or #list + 1. The default
// value for pos is #list".
func Remove(t Tab, n int64, hasPos bool, pos int64) (V, error) {
	if !hasPos {
		pos = n
	}
	switch {
	case pos >= 1 && pos <= n:
		if n-pos > MaxLoop {
			return Nil, ErrMid
		}
		v := t.Get(pos)
		for k := pos; k < n; k++ {
			t.Set(k, t.Get(k+1))
		}
		t.Set(n, Nil)
		return v, nil
	case (n == 0 && pos == 0) || (n < math.MaxInt64 && pos == n+1):
		v := t.Get(pos)
		t.Set(pos, Nil)
		return v, nil
	}
	return Nil, ErrDomain
}

// Move is table.move(a1, f, e, t [,a2]): "performing the equivalent to the
// following multiple assignment: a2[t],... = a1[f],...,a1[e]. The default for
// a2 is a1. The destination range can overlap with the source range. The
// number of elements to be moved must fit in a Lua integer." a2 may be the
// same map as a1. Destination positions beyond maxinteger do not exist
// ("destination wrap around" in the reference implementation).
func Move(a1 Tab, f, e, t int64, a2 Tab) error {
	if f > e {
		return nil
	}
	count := new(big.Int).Sub(big.NewInt(e), big.NewInt(f))
	count.Add(count, bigOne)
	if count.Cmp(bigMaxInt) > 0 {
		return ErrDomain
	}
	last := new(big.Int).Add(big.NewInt(t), count)
	last.Sub(last, bigOne)
	if last.Cmp(bigMaxInt) > 0 {
		return ErrDomain
	}
	if count.Cmp(big.NewInt(MaxLoop)) > 0 {
		return loopErr(count)
	}
	c := count.Int64()
	vals := make([]V, c)
	for k := int64(0); k < c; k++ { // multiple assignment: every read precedes every write
		vals[k] = a1.Get(f + k)
	}
	for k := int64(0); k < c; k++ {
		a2.Set(t+k, vals[k])
	}
	return nil
}

// NumToString converts a number element the way `..` does for integers
// (decimal). Floats use fmtFloat: "The conversion of numbers to strings uses a
// non-specified human-readable format" (§3.4.3), so the caller supplies it.
func numToString(v V, fmtFloat func(float64) (string, bool)) (string, bool) {
	switch v.Kind {
	case 's':
		return v.S, true
	case 'i':
		return strconv.FormatInt(v.I, 10), true
	case 'f':
		if fmtFloat == nil {
			return "", false
		}
		return fmtFloat(v.F)
	}
	return "", false
}

// ErrUnspecified: the result depends on something the manual leaves open.
var ErrUnspecified = errors.New("unspecified")

// Concat is table.concat(list, sep, i, j): "Given a list where all elements
// are strings or numbers, returns the string list[i]..sep..list[i+1] ...
// sep..list[j]. ... If i is greater than j, returns the empty string." Any
// element in the range that is neither a string nor a number is an error
// (that includes nil, so the walk over a finite table always ends).
func Concat(t Tab, sep []byte, i, j int64, fmtFloat func(float64) (string, bool)) ([]byte, error) {
	out := []byte{}
	if i > j {
		return out, nil
	}
	for k := i; ; k++ {
		v := t.Get(k)
		if v.Kind != 's' && v.Kind != 'i' && v.Kind != 'f' {
			return nil, ErrDomain
		}
		s, ok := numToString(v, fmtFloat)
		if !ok {
			return nil, ErrUnspecified
		}
		if k > i {
			out = append(out, sep...)
		}
		out = append(out, s...)
		if k == j {
			break
		}
	}
	return out, nil
}

// UnpackLimit is the number of results up to which table.unpack must work
// (the limit golua documents; the reference implementation's is about 10^6;
// the manual names none).
const UnpackLimit = 256

// Unpack is table.unpack(list, i, j): "return list[i], list[i+1], ...,
// list[j]". soft reports that the count exceeds UnpackLimit, where "too many
// results to unpack" is an acceptable outcome as well.
func Unpack(t Tab, i, j int64) (vals []V, soft bool, err error) {
	vals = []V{}
	if i > j {
		return vals, false, nil
	}
	count := new(big.Int).Sub(big.NewInt(j), big.NewInt(i))
	count.Add(count, bigOne)
	if count.Cmp(big.NewInt(MaxLoop)) > 0 {
		return nil, true, loopErr(count)
	}
	for k := i; ; k++ {
		vals = append(vals, t.Get(k))
		if k == j {
			break
		}
	}
	return vals, len(vals) > UnpackLimit, nil
}

// Pack is table.pack(...): "a new table with all arguments stored into keys
// 1, 2, etc. and with a field "n" with the total number of arguments."
func Pack(args []V) (Tab, int64) {
	t := Tab{}
	for k, v := range args {
		t.Set(int64(k+1), v)
	}
	return t, int64(len(args))
}

// ---------------------------------------------------------------------------
// sort

// CheckSort checks the manual's contract for table.sort on positions 1..n:
// after is a permutation of before (multiset equality of the encodings, which
// carry identity for tables) and, when notLess is given (a consistent order),
// no element is less than its predecessor: notLess(x, y) reports !(y < x)
// failing, i.e. it returns true when y < x.
func CheckSort(before, after []string, less func(a, b string) bool) string {
	if len(before) != len(after) {
		return fmt.Sprintf("length changed from %d to %d", len(before), len(after))
	}
	cnt := map[string]int{}
	for _, b := range before {
		cnt[b]++
	}
	for _, a := range after {
		cnt[a]--
	}
	for k, c := range cnt {
		if c > 0 {
			return fmt.Sprintf("element %s lost (%d fewer after the sort)", k, c)
		}
		if c < 0 {
			return fmt.Sprintf("element %s duplicated or invented (%d more after the sort)", k, -c)
		}
	}
	if less != nil {
		for k := 1; k < len(after); k++ {
			if less(after[k], after[k-1]) {
				return fmt.Sprintf("not ordered: element %d (%s) is less than element %d (%s)", k+1, after[k], k, after[k-1])
			}
		}
	}
	return ""
}

// ---------------------------------------------------------------------------
// self test: facts stated in (or immediate from) the manual's text. A model
// that fails them must not be used as an oracle.

func SelfTest() error {
	type tc struct {
		name string
		ok   bool
	}
	b := func(s string) []byte { return []byte(s) }
	eq := func(x []byte, s string) bool { return string(x) == s }
	st, en, found := FindPlain(b("hello world"), b("o w"), 1)
	st2, en2, found2 := FindPlain(b("abc"), b(""), 4)
	_, _, found3 := FindPlain(b("abc"), b(""), 5)
	st4, en4, found4 := FindPlain(b("abcabc"), b("c"), -3)
	t1 := Tab{1: Int(10), 2: Int(20), 3: Int(30)}
	Insert(t1, 3, true, 1, Int(5))
	t2 := Tab{1: Int(10), 2: Int(20), 3: Int(30)}
	r2, e2 := Remove(t2, 3, true, 1)
	t3 := Tab{1: Int(1), 2: Int(2), 3: Int(3)}
	Move(t3, 1, 3, 2, t3)
	t4 := Tab{1: Int(1), 2: Int(2), 3: Int(3)}
	Move(t4, 2, 3, 1, t4)
	t5 := Tab{}
	_, e5 := Remove(t5, 0, true, 0)
	_, e6 := Remove(Tab{1: Int(1)}, 1, true, 3)
	c1, _ := Concat(Tab{1: Int(1), 2: Str("b"), 3: Int(3)}, b(", "), 1, 3, nil)
	_, ce := Concat(Tab{1: Int(1)}, b(""), 1, 2, nil)
	u, _, _ := Unpack(Tab{1: Int(1), 3: Int(3)}, 0, 3)
	rp, _ := Rep(b("ab"), 3, b(","))
	rn, _ := Rep(b("ab"), -5, nil)
	_, rh := Rep(b("ab"), 1<<40, nil)
	_, ch := Char([]int64{97, 256})
	cases := []tc{
		{"sub(hello,2,-2)", eq(Sub(b("hello"), 2, -2), "ell")},
		{"sub(hello,-3,-1)", eq(Sub(b("hello"), -3, -1), "llo")},
		{"sub(hello,0,-1)", eq(Sub(b("hello"), 0, -1), "hello")},
		{"sub(hello,-100,2)", eq(Sub(b("hello"), -100, 2), "he")},
		{"sub(hello,4,100)", eq(Sub(b("hello"), 4, 100), "lo")},
		{"sub(hello,4,2)", eq(Sub(b("hello"), 4, 2), "")},
		{"sub(hello,minint,maxint)", eq(Sub(b("hello"), math.MinInt64, math.MaxInt64), "hello")},
		{"sub(hello,maxint,minint)", eq(Sub(b("hello"), math.MaxInt64, math.MinInt64), "")},
		{"byte(abc,-1,-1)", fmt.Sprint(Byte(b("abc"), -1, -1)) == "[99]"},
		{"byte(abc,0,0)", len(Byte(b("abc"), 0, 0)) == 0},
		{"byte(abc,1,-1)", fmt.Sprint(Byte(b("abc"), 1, -1)) == "[97 98 99]"},
		{"rep", eq(rp, "ab,ab,ab") && eq(rn, "") && rh == ErrHuge},
		{"char", ch == ErrDomain},
		{"upper", eq(Upper(b("aZ\xe9\xff1")), "AZ\xe9\xff1") && eq(Lower(b("aZ\xc9\xff1")), "az\xc9\xff1")},
		{"reverse", eq(Reverse(b("ab\x00")), "\x00ba")},
		{"find1", found && st == 5 && en == 7},
		{"find2", found2 && st2 == 4 && en2 == 3 && !found3},
		{"find3", found4 && st4 == 6 && en4 == 6},
		{"insert", len(t1) == 4 && t1[1].I == 5 && t1[2].I == 10 && t1[4].I == 30},
		{"remove", e2 == nil && r2.I == 10 && len(t2) == 2 && t2[1].I == 20 && t2[2].I == 30},
		{"move up", t3[1].I == 1 && t3[2].I == 1 && t3[3].I == 2 && t3[4].I == 3},
		{"move down", t4[1].I == 2 && t4[2].I == 3 && t4[3].I == 3},
		{"remove empty", e5 == nil && e6 == ErrDomain},
		{"concat", eq(c1, "1, b, 3") && ce == ErrDomain},
		{"unpack", len(u) == 4 && u[0].IsNil() && u[1].I == 1 && u[2].IsNil() && u[3].I == 3},
		{"move too many", Move(Tab{}, math.MinInt64, 0, 1, Tab{}) == ErrDomain},
		{"move wrap", Move(Tab{}, 1, 2, math.MaxInt64, Tab{}) == ErrDomain},
		{"move huge", Move(Tab{}, 1, math.MaxInt64, 1, Tab{}) == ErrHuge},
		{"sort perm", CheckSort([]string{"a", "b", "b"}, []string{"b", "a", "b"}, nil) == "" && CheckSort([]string{"a", "b"}, []string{"b", "b"}, nil) != ""},
	}
	for _, c := range cases {
		if !c.ok {
			return fmt.Errorf("libref self test failed: %s", c.name)
		}
	}
	return nil
}
