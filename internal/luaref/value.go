// Package luaref is a reference interpreter for MiniLua ASTs (internal/mlua),
// written directly from the Lua 5.4 reference manual as a tree walker. It has
// no registers, no upvalue cells, no jump resolution, no continuation pools:
// nothing of what golua's compiler and VM do. It is the oracle for the
// program-level properties.
package luaref

import (
	"fmt"
	"math"
	"strconv"
	"strings"

	"verif/internal/mlua"
	"verif/internal/numref"
)

// Value is a Lua value: nil, bool, int64, float64, string, *Table,
// *Function, *Coroutine, or *ErrStr (a string whose exact text the manual
// does not determine).
type Value = any

// ErrStr is a string value that the manual only partially determines: the
// message of a runtime error, or an error message whose position prefix
// cannot be known.
type ErrStr struct {
	Any            bool   // any string at all
	AnyLine        bool   // positioned at some line the model cannot know
	Line           int    // known line (when > 0)
	From, To       int    // otherwise the line lies in [From,To] (when From > 0)
	Msg            string // message after the "chunk:line: " prefix
	MsgKnown       bool
	PrefixOptional bool // the implementation may or may not add a position
}

// Table is a Lua table.
type Table struct {
	m    map[any]Value
	keys []any // insertion order, for a deterministic next (only order-insensitive uses are generated)
	Meta *Table
}

func NewTable() *Table { return &Table{m: map[any]Value{}} }

// Function is a Lua closure or a builtin.
type Function struct {
	Proto   *mlua.Func
	Env     *env
	Name    string
	Builtin func(in *Interp, site any, args []Value) []Value
	Self    bool // (unused)
}

// Unspecified is the panic payload that aborts a case whose behaviour the
// manual does not fully determine.
type Unspecified struct{ Reason string }

// Budget is the panic payload when the step budget is exhausted.
type Budget struct{}

// LuaError is a Lua error in flight.
type LuaError struct {
	Val Value
	// Closing: the error unwinds a coroutine that is being closed (it runs
	// the pending close handlers and cannot be caught inside the coroutine).
	Closing bool
}

func unspecified(format string, a ...any) {
	panic(Unspecified{fmt.Sprintf(format, a...)})
}

// normKey normalises a table key: floats with an exact integer value denote
// the integer key.
func normKey(k Value) any {
	if f, ok := k.(float64); ok {
		if i, ok := numref.FloatToInt(f); ok {
			return i
		}
	}
	return k
}

func (t *Table) Get(k Value) Value {
	if k == nil {
		return nil
	}
	if _, isErr := k.(*ErrStr); isErr {
		unspecified("error message used as a table key")
	}
	return t.m[normKey(k)]
}

func (t *Table) Set(k, v Value) {
	if _, isErr := k.(*ErrStr); isErr {
		unspecified("error message used as a table key")
	}
	k = normKey(k)
	if v == nil {
		if _, ok := t.m[k]; ok {
			t.m[k] = nil // keep the key slot so that traversal can continue ("clearing fields")
		}
		return
	}
	if _, ok := t.m[k]; !ok {
		t.keys = append(t.keys, k)
	}
	t.m[k] = v
}

// Next implements next(t, k) in insertion order.
func (t *Table) Next(k Value) (Value, Value, bool) {
	i := 0
	if k != nil {
		k = normKey(k)
		found := false
		for j, kk := range t.keys {
			if kk == k {
				i = j + 1
				found = true
				break
			}
		}
		if !found {
			return nil, nil, false
		}
	}
	for ; i < len(t.keys); i++ {
		if v := t.m[t.keys[i]]; v != nil {
			return t.keys[i], v, true
		}
	}
	return nil, nil, true
}

// Count returns the number of non-nil fields.
func (t *Table) Count() int {
	n := 0
	for _, v := range t.m {
		if v != nil {
			n++
		}
	}
	return n
}

// Border returns the border of t if it is unique; otherwise the case is
// unspecified (any border may be returned by an implementation).
func (t *Table) Border() int64 {
	var j int64
	for t.m[j+1] != nil {
		j++
	}
	for k, v := range t.m {
		if v == nil {
			continue
		}
		if i, ok := k.(int64); ok && i > j+1 {
			unspecified("length of a table with more than one border")
		}
	}
	return j
}

func typeName(v Value) string {
	switch v.(type) {
	case nil:
		return "nil"
	case bool:
		return "boolean"
	case int64, float64:
		return "number"
	case string, *ErrStr:
		return "string"
	case *Table:
		return "table"
	case *Function:
		return "function"
	case *Coroutine:
		return "thread"
	}
	return "userdata"
}

func truth(v Value) bool {
	switch x := v.(type) {
	case nil:
		return false
	case bool:
		return x
	}
	return true
}

func toNum(v Value) (numref.Num, bool) {
	switch x := v.(type) {
	case int64:
		return numref.Int(x), true
	case float64:
		return numref.Float(x), true
	}
	return numref.Num{}, false
}

func fromNum(n numref.Num) Value {
	if n.IsInt {
		return n.I
	}
	return n.F
}

// toNumCoerce converts numbers and numeric strings (arithmetic coercion).
func toNumCoerce(v Value) (numref.Num, bool) {
	if n, ok := toNum(v); ok {
		return n, true
	}
	switch s := v.(type) {
	case string:
		return numref.StringToNumber(s)
	case *ErrStr:
		unspecified("arithmetic on an error message")
	}
	return numref.Num{}, false
}

// tostr converts for concatenation / tostring: strings and integers only;
// float formatting is not determined by the manual.
func tostr(v Value) (string, bool) {
	switch x := v.(type) {
	case string:
		return x, true
	case int64:
		return strconv.FormatInt(x, 10), true
	case float64:
		unspecified("float converted to a string")
	case *ErrStr:
		unspecified("error message used as a string operand")
	}
	return "", false
}

// rawEquals is primitive equality (no metamethods).
func rawEquals(a, b Value) bool {
	// an error message is a string whose text is only partly known: equal to
	// itself, different from every non-string, undecided against other strings
	if ea, ok := a.(*ErrStr); ok {
		if eb, ok := b.(*ErrStr); ok && ea == eb {
			return true
		}
		switch b.(type) {
		case string, *ErrStr:
			unspecified("comparison of an error message")
		}
		return false
	}
	if _, ok := b.(*ErrStr); ok {
		if _, isStr := a.(string); isStr {
			unspecified("comparison of an error message")
		}
		return false
	}
	na, oka := toNum(a)
	nb, okb := toNum(b)
	if oka && okb {
		return numref.Eq(na, nb)
	}
	if oka != okb {
		return false
	}
	if fa, ok := a.(*Function); ok {
		if fb, ok := b.(*Function); ok && fa != fb && fa.Proto != nil && fa.Proto == fb.Proto {
			unspecified("equality of two closures of the same function expression")
		}
	}
	return a == b
}

// ---- canonical encoding (same as harness.Canon on the golua side)

type canon struct{ ids map[any]int }

func (c *canon) id(p any) int {
	if id, ok := c.ids[p]; ok {
		return id
	}
	id := len(c.ids) + 1
	c.ids[p] = id
	return id
}

func (c *canon) enc(v Value) string {
	switch x := v.(type) {
	case nil:
		return "nil"
	case bool:
		if x {
			return "true"
		}
		return "false"
	case int64:
		return "i:" + strconv.FormatInt(x, 10)
	case float64:
		if x != x {
			return "f:nan"
		}
		return "f:" + strconv.FormatUint(math.Float64bits(x), 16) + "(" + strconv.FormatFloat(x, 'g', -1, 64) + ")"
	case string:
		return "s:" + strconv.Quote(x)
	case *ErrStr:
		return x.encode()
	case *Table:
		return "T#" + strconv.Itoa(c.id(x))
	case *Function:
		return "F"
	case *Coroutine:
		return "C#" + strconv.Itoa(c.id(x))
	}
	return fmt.Sprintf("?%T", v)
}

func (e *ErrStr) encode() string {
	var sb strings.Builder
	sb.WriteString("E|")
	switch {
	case e.Any:
		sb.WriteString("any")
	case e.AnyLine:
		sb.WriteString("*")
	case e.Line > 0:
		fmt.Fprintf(&sb, "%d", e.Line)
	case e.From > 0:
		fmt.Fprintf(&sb, "%d-%d", e.From, e.To)
	default:
		sb.WriteString("none")
	}
	if e.PrefixOptional {
		sb.WriteString("?")
	}
	sb.WriteString("|")
	if e.MsgKnown {
		sb.WriteString(strconv.Quote(e.Msg))
	} else {
		sb.WriteString("*")
	}
	return sb.String()
}

// MatchToken reports whether a golua-side canonical token is acceptable for
// a model-side token. chunk is the chunk name used in position prefixes.
func MatchToken(model, got, chunk string) bool {
	if !strings.HasPrefix(model, "E|") {
		return model == got
	}
	if !strings.HasPrefix(got, "s:") {
		return false
	}
	s, err := strconv.Unquote(got[2:])
	if err != nil {
		return false
	}
	parts := strings.SplitN(model[2:], "|", 2)
	pos, msg := parts[0], parts[1]
	if pos == "any" || pos == "any?" {
		return true
	}
	optional := strings.HasSuffix(pos, "?")
	pos = strings.TrimSuffix(pos, "?")
	msgKnown := msg != "*"
	if msgKnown {
		msg, _ = strconv.Unquote(msg)
	}
	checkMsg := func(rest string) bool { return !msgKnown || rest == msg }
	if pos == "none" {
		return checkMsg(s)
	}
	if optional && msgKnown && s == msg {
		return true
	}
	// expect "chunk:LINE: rest"
	pfx := chunk + ":"
	if !strings.HasPrefix(s, pfx) {
		return optional && checkMsg(s)
	}
	rest := s[len(pfx):]
	i := 0
	for i < len(rest) && rest[i] >= '0' && rest[i] <= '9' {
		i++
	}
	if i == 0 || !strings.HasPrefix(rest[i:], ": ") {
		return optional && checkMsg(s)
	}
	line, _ := strconv.Atoi(rest[:i])
	rest = rest[i+2:]
	var lo, hi int
	if pos == "*" {
		lo, hi = 0, 1<<30
	} else if k := strings.IndexByte(pos, '-'); k >= 0 {
		lo, _ = strconv.Atoi(pos[:k])
		hi, _ = strconv.Atoi(pos[k+1:])
	} else {
		lo, _ = strconv.Atoi(pos)
		hi = lo
	}
	if line < lo || line > hi {
		return false
	}
	return checkMsg(rest)
}
