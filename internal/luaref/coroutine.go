package luaref

// Coroutines of the model are goroutines with a strict hand-off: exactly one
// of them runs at any time (the others block on a channel), so the
// interpreter state needs no locking.

type Coroutine struct {
	fn          Value
	status      string // suspended, running, normal, dead
	started     bool
	isMain      bool
	toCo        chan coMsg // resume values / close / kill
	fromCo      chan coMsg // yield values / result / error
	frames      []frame
	prot        int       // protected-call depth inside this coroutine
	handlers    []Value   // xpcall message handlers active in this coroutine (nil entries for pcall)
	deathErr    *LuaError // error that killed the coroutine
	errReported bool      // coroutine.close already returned that error
	closing     bool      // coroutine.close is unwinding it
	inCloser    int       // __close handlers of this coroutine that are running
}

type coMsgKind int

const (
	msgValues coMsgKind = iota // resume args / yield values
	msgReturn
	msgError
	msgAbort // Unspecified / Budget / internal panic travelling to the main goroutine
	msgClose
	msgKill
	msgClosed
)

type coMsg struct {
	kind  coMsgKind
	vals  []Value
	err   *LuaError
	panic any
}

type coKill struct{}

// closeSentinel is the error value used to unwind a coroutine being closed:
// to-be-closed variables see nil as the error, protected calls do not catch it.
var closeSentinel = &struct{ name string }{"coroutine.close"}

func (in *Interp) curCo() *Coroutine {
	if in.cur == nil {
		return in.mainCo
	}
	return in.cur
}

func (in *Interp) killCoroutines() {
	for _, co := range in.coros {
		if co.started && co.status == "suspended" {
			co.status = "dead"
			co.toCo <- coMsg{kind: msgKill}
			<-co.fromCo
		}
	}
}

func (in *Interp) newCoroutine(fn Value) *Coroutine {
	co := &Coroutine{fn: fn, status: "suspended", toCo: make(chan coMsg), fromCo: make(chan coMsg)}
	in.coros = append(in.coros, co)
	in.feat("coroutine-created")
	return co
}

// resume transfers control to co and returns what comes back.
func (in *Interp) resume(co *Coroutine, msg coMsg) coMsg {
	prev := in.curCo()
	prev.status = "normal"
	prev.frames = in.frames
	co.status = "running"
	in.cur = co
	in.frames = co.frames
	if !co.started {
		co.started = true
		go in.coroutineMain(co, msg.vals)
	} else {
		co.toCo <- msg
	}
	back := <-co.fromCo
	co.frames = in.frames
	in.frames = prev.frames
	prev.status = "running"
	if prev.isMain {
		in.cur = nil
	} else {
		in.cur = prev
	}
	switch back.kind {
	case msgValues:
		co.status = "suspended"
	case msgReturn, msgError, msgClosed:
		co.status = "dead"
		if back.kind == msgError {
			co.deathErr = back.err
		}
	case msgAbort:
		co.status = "dead"
		panic(back.panic)
	}
	return back
}

func (in *Interp) coroutineMain(co *Coroutine, args []Value) {
	defer func() {
		if p := recover(); p != nil {
			switch x := p.(type) {
			case coKill:
				co.fromCo <- coMsg{kind: msgClosed}
			case *LuaError:
				if x.Val == closeSentinel {
					co.fromCo <- coMsg{kind: msgClosed}
				} else {
					co.fromCo <- coMsg{kind: msgError, err: x}
				}
			default:
				co.fromCo <- coMsg{kind: msgAbort, panic: p}
			}
		}
	}()
	vals := in.call(co.fn, args, nil, false)
	co.fromCo <- coMsg{kind: msgReturn, vals: vals}
}

// yield suspends the running coroutine.
func (in *Interp) yield(vals []Value) []Value {
	co := in.cur
	if co == nil {
		in.libError("attempt to yield from outside a coroutine")
	}
	if co.closing {
		// the reference implementation refuses this ("attempt to yield across a
		// C-call boundary"), the manual does not say
		unspecified("yield from a close handler of a coroutine that is being closed")
	}
	in.feat("yield")
	if co.prot > 0 {
		in.feat("yield-inside-protected-call")
	}
	co.fromCo <- coMsg{kind: msgValues, vals: vals}
	msg := <-co.toCo
	switch msg.kind {
	case msgKill:
		panic(coKill{})
	case msgClose:
		if co.inCloser > 0 {
			unspecified("coroutine.close of a coroutine that is suspended inside a close handler")
		}
		co.closing = true
		panic(&LuaError{Val: closeSentinel, Closing: true})
	}
	return msg.vals
}

func (in *Interp) installCoroutineLib() {
	in.mainCo = &Coroutine{status: "running", isMain: true}
	C := NewTable()
	in.Globals.Set("coroutine", C)
	argCo := func(in *Interp, args []Value, i int) *Coroutine {
		co, ok := arg(args, i).(*Coroutine)
		if !ok {
			in.libError("coroutine expected")
		}
		return co
	}
	in.reg(C, "create", func(in *Interp, site any, args []Value) []Value {
		if _, ok := arg(args, 0).(*Function); !ok {
			in.libError("function expected")
		}
		return []Value{in.newCoroutine(args[0])}
	})
	in.reg(C, "status", func(in *Interp, site any, args []Value) []Value {
		return []Value{argCo(in, args, 0).status}
	})
	in.reg(C, "running", func(in *Interp, site any, args []Value) []Value {
		co := in.curCo()
		return []Value{co, co.isMain}
	})
	in.reg(C, "isyieldable", func(in *Interp, site any, args []Value) []Value {
		return []Value{in.cur != nil}
	})
	in.reg(C, "yield", func(in *Interp, site any, args []Value) []Value {
		return in.yield(args)
	})
	in.reg(C, "resume", func(in *Interp, site any, args []Value) []Value {
		co := argCo(in, args, 0)
		in.feat("resume")
		if co.status != "suspended" {
			in.feat("resume-non-suspended")
			return []Value{false, &ErrStr{Any: true}}
		}
		back := in.resume(co, coMsg{kind: msgValues, vals: args[1:]})
		switch back.kind {
		case msgError:
			in.feat("coroutine-error-to-resumer")
			return []Value{false, back.err.Val}
		default:
			return append([]Value{true}, back.vals...)
		}
	})
	in.reg(C, "wrap", func(in *Interp, site any, args []Value) []Value {
		if _, ok := arg(args, 0).(*Function); !ok {
			in.libError("function expected")
		}
		co := in.newCoroutine(args[0])
		in.feat("wrap")
		return []Value{&Function{Name: "wrapped", Builtin: func(in *Interp, site any, args []Value) []Value {
			if co.status != "suspended" {
				in.raise(&ErrStr{Any: true})
			}
			back := in.resume(co, coMsg{kind: msgValues, vals: args})
			if back.kind == msgError {
				in.feat("coroutine-error-through-wrap")
				// The error goes on unchanged: the manual says wrap "propagates the
				// error", and C11 that error(v) delivers v itself to the nearest
				// enclosing protected call - coroutine.wrap is not one. (The
				// reference implementation prepends the caller's position to string
				// errors here; golua does not, and a golua that started to do so
				// would no longer deliver v itself.)
				in.raise(back.err.Val)
			}
			return back.vals
		}}}
	})
	in.reg(C, "close", func(in *Interp, site any, args []Value) []Value {
		co := argCo(in, args, 0)
		in.feat("coroutine.close")
		switch co.status {
		case "suspended":
			if !co.started {
				co.status = "dead"
				return []Value{true}
			}
			in.feat("close-suspended-started")
			back := in.resume(co, coMsg{kind: msgClose})
			if back.kind == msgError {
				co.errReported = true
				return []Value{false, back.err.Val}
			}
			return []Value{true}
		case "dead":
			if co.deathErr != nil {
				if co.errReported {
					// whether closing again a coroutine whose error was already
					// reported by close returns true or false+error is not said
					unspecified("second coroutine.close of a coroutine that ended with an error")
				}
				co.errReported = true
				return []Value{false, co.deathErr.Val}
			}
			return []Value{true}
		}
		in.libError("cannot close a " + co.status + " coroutine")
		return nil
	})
}

// raise raises val as a Lua error, giving the innermost xpcall message
// handler (if the innermost protected call is an xpcall) the chance to
// transform it at the point of the error.
func (in *Interp) raise(val Value) {
	panic(&LuaError{Val: in.applyHandler(val)})
}

func (in *Interp) applyHandler(val Value) Value {
	co := in.curCo()
	if n := len(co.handlers); n > 0 && co.handlers[n-1] != nil && !in.inHandler {
		h := co.handlers[n-1]
		in.inHandler = true
		in.feat("xpcall-handler-run")
		vals, err := in.protectRaw(func() []Value { return in.call(h, []Value{val}, nil, false) })
		in.inHandler = false
		if err != nil {
			unspecified("error inside an xpcall message handler")
		}
		return first(vals)
	}
	return val
}
