package luaref

import (
	"fmt"
	"strings"

	"verif/internal/mlua"
	"verif/internal/numref"
)

// eval evaluates e to exactly one value.
func (in *Interp) eval(x mlua.Expr, e *env) Value {
	in.step()
	switch n := x.(type) {
	case *mlua.Nil:
		return nil
	case *mlua.True:
		return true
	case *mlua.False:
		return false
	case *mlua.Int:
		return n.V
	case *mlua.Float:
		return n.V
	case *mlua.Str:
		return n.V
	case *mlua.Vararg:
		vs := in.varargs(e)
		if len(vs) == 0 {
			return nil
		}
		return vs[0]
	case *mlua.Name:
		return in.getVar(n.N, e)
	case *mlua.Paren:
		return in.eval(n.X, e)
	case *mlua.Index:
		obj := in.eval(n.Obj, e)
		key := in.eval(n.Key, e)
		return in.index(obj, key, n)
	case *mlua.Call, *mlua.MethCall:
		vs := in.evalMulti(x, e, false)
		if len(vs) == 0 {
			return nil
		}
		return vs[0]
	case *mlua.Func:
		in.feat("closure")
		return &Function{Proto: n, Env: e}
	case *mlua.Bin:
		switch n.Op {
		case "and":
			l := in.eval(n.L, e)
			if !truth(l) {
				return l
			}
			return in.eval(n.R, e)
		case "or":
			l := in.eval(n.L, e)
			if truth(l) {
				return l
			}
			return in.eval(n.R, e)
		}
		l := in.eval(n.L, e)
		r := in.eval(n.R, e)
		return in.binop(n.Op, l, r, n)
	case *mlua.Un:
		v := in.eval(n.X, e)
		return in.unop(n.Op, v, n)
	case *mlua.Table:
		t := NewTable()
		var pos int64 = 1
		for i, it := range n.Items {
			switch {
			case it.NameKey != "":
				in.rawsetCheck(t, it.NameKey, in.eval(it.Val, e), n)
			case it.Key != nil:
				k := in.eval(it.Key, e)
				v := in.eval(it.Val, e)
				in.rawsetCheck(t, k, v, n)
			default:
				if i == len(n.Items)-1 && mlua.IsMulti(it.Val) {
					for _, v := range in.evalMulti(it.Val, e, false) {
						t.Set(pos, v)
						pos++
					}
				} else {
					t.Set(pos, in.eval(it.Val, e))
					pos++
				}
			}
		}
		return t
	}
	panic(fmt.Sprintf("luaref: unknown expression %T", x))
}

func (in *Interp) rawsetCheck(t *Table, k, v Value, node any) {
	if k == nil {
		in.rtError(node, "table index is nil")
	}
	if f, ok := k.(float64); ok && f != f {
		in.rtError(node, "table index is NaN")
	}
	t.Set(k, v)
}

func (in *Interp) varargs(e *env) []Value {
	c := e.lookup("...")
	if c == nil {
		return nil
	}
	vs, _ := c.v.([]Value)
	return vs
}

// evalMulti evaluates a multi-valued expression to all its values.
func (in *Interp) evalMulti(x mlua.Expr, e *env, tail bool) []Value {
	switch n := x.(type) {
	case *mlua.Call:
		return in.evalCall(n, e, tail)
	case *mlua.MethCall:
		in.feat("method-call")
		obj := in.eval(n.Obj, e)
		f := in.index(obj, n.Name, n)
		args := append([]Value{obj}, in.evalList(n.Args, e, -1)...)
		return in.call(f, args, n, tail)
	case *mlua.Vararg:
		in.feat("vararg")
		return append([]Value{}, in.varargs(e)...)
	}
	return []Value{in.eval(x, e)}
}

func (in *Interp) evalCall(n *mlua.Call, e *env, tail bool) []Value {
	f := in.eval(n.Fn, e)
	args := in.evalList(n.Args, e, -1)
	return in.call(f, args, n, tail)
}

// evalList evaluates an expression list; want >= 0 adjusts the result to
// exactly want values.
func (in *Interp) evalList(xs []mlua.Expr, e *env, want int) []Value {
	var out []Value
	for i, x := range xs {
		if i == len(xs)-1 && mlua.IsMulti(x) {
			out = append(out, in.evalMulti(x, e, false)...)
		} else {
			out = append(out, in.eval(x, e))
		}
	}
	if want >= 0 {
		for len(out) < want {
			out = append(out, nil)
		}
		out = out[:want]
	}
	return out
}

// ---------------------------------------------------------------- metatables

func (in *Interp) metatable(v Value) *Table {
	switch x := v.(type) {
	case *Table:
		return x.Meta
	case string, *ErrStr:
		return in.stringMeta
	}
	return nil
}

func (in *Interp) metaOf(v Value, event string) Value {
	mt := in.metatable(v)
	if mt == nil {
		return nil
	}
	return mt.Get(event)
}

func (in *Interp) index(obj, key Value, node any) Value {
	for loop := 0; loop < 100; loop++ {
		var h Value
		if t, ok := obj.(*Table); ok {
			if v := t.Get(key); v != nil {
				return v
			}
			if t.Meta == nil {
				return nil
			}
			h = t.Meta.Get("__index")
			if h == nil {
				return nil
			}
		} else {
			if _, isErr := obj.(*ErrStr); isErr {
				unspecified("indexing an error message")
			}
			h = in.metaOf(obj, "__index")
			if h == nil {
				in.rtError(node, "attempt to index a "+typeName(obj)+" value")
			}
		}
		in.feat("meta:__index")
		if f, ok := h.(*Function); ok {
			vs := in.call(f, []Value{obj, key}, node, false)
			if len(vs) == 0 {
				return nil
			}
			return vs[0]
		}
		obj = h
	}
	unspecified("__index chain too long")
	return nil
}

func (in *Interp) setIndex(obj, key, val Value, node any) {
	for loop := 0; loop < 100; loop++ {
		var h Value
		if t, ok := obj.(*Table); ok {
			if t.Get(key) != nil || t.Meta == nil {
				in.rawsetCheck(t, key, val, node)
				return
			}
			h = t.Meta.Get("__newindex")
			if h == nil {
				in.rawsetCheck(t, key, val, node)
				return
			}
		} else {
			if _, isErr := obj.(*ErrStr); isErr {
				unspecified("indexing an error message")
			}
			h = in.metaOf(obj, "__newindex")
			if h == nil {
				in.rtError(node, "attempt to index a "+typeName(obj)+" value")
			}
		}
		in.feat("meta:__newindex")
		if f, ok := h.(*Function); ok {
			in.call(f, []Value{obj, key, val}, node, false)
			return
		}
		obj = h
	}
	unspecified("__newindex chain too long")
}

var arithEvents = map[string]string{
	"+": "__add", "-": "__sub", "*": "__mul", "/": "__div", "%": "__mod", "^": "__pow", "//": "__idiv",
	"&": "__band", "|": "__bor", "~": "__bxor", "<<": "__shl", ">>": "__shr", "..": "__concat",
}

func (in *Interp) binMeta(event string, a, b Value, node any, what string) Value {
	h := in.metaOf(a, event)
	if h == nil {
		h = in.metaOf(b, event)
	}
	if h == nil {
		in.rtError(node, what)
	}
	in.feat("meta:" + event)
	vs := in.call(h, []Value{a, b}, node, false)
	if len(vs) == 0 {
		return nil
	}
	return vs[0]
}

func isStringy(v Value) bool {
	switch v.(type) {
	case string, *ErrStr:
		return true
	}
	return false
}

func (in *Interp) binop(op string, a, b Value, node any) Value {
	switch op {
	case "+", "-", "*", "/", "%", "^", "//":
		x, okx := toNumCoerce(a)
		y, oky := toNumCoerce(b)
		if okx && oky {
			if isStringy(a) || isStringy(b) {
				in.feat("string-arith-coercion")
			}
			return in.arith(op, x, y, node)
		}
		return in.binMeta(arithEvents[op], a, b, node, "attempt to perform arithmetic")
	case "&", "|", "~", "<<", ">>":
		x, okx := toNum(a)
		y, oky := toNum(b)
		if okx && oky {
			var r numref.Num
			var err error
			switch op {
			case "&":
				r, err = numref.Band(x, y)
			case "|":
				r, err = numref.Bor(x, y)
			case "~":
				r, err = numref.Bxor(x, y)
			case "<<":
				r, err = numref.Shl(x, y)
			case ">>":
				r, err = numref.Shr(x, y)
			}
			if err != nil {
				in.rtError(node, err.Error())
			}
			return fromNum(r)
		}
		if (isStringy(a) || okx) && (isStringy(b) || oky) {
			unspecified("string operand of a bitwise operator")
		}
		return in.binMeta(arithEvents[op], a, b, node, "attempt to perform bitwise operation")
	case "..":
		_, na := toNum(a)
		_, nb := toNum(b)
		if (isStringy(a) || na) && (isStringy(b) || nb) {
			sa, _ := tostr(a)
			sb, _ := tostr(b)
			if len(sa)+len(sb) > 1<<22 {
				panic(Budget{})
			}
			return sa + sb
		}
		return in.binMeta("__concat", a, b, node, "attempt to concatenate")
	case "==":
		return in.equals(a, b)
	case "~=":
		return !in.equals(a, b)
	case "<":
		return in.less(a, b, node, false)
	case "<=":
		return in.less(a, b, node, true)
	case ">":
		return in.less(b, a, node, false)
	case ">=":
		return in.less(b, a, node, true)
	}
	panic("luaref: unknown operator " + op)
}

func (in *Interp) arith(op string, x, y numref.Num, node any) Value {
	switch op {
	case "+":
		return fromNum(numref.Add(x, y))
	case "-":
		return fromNum(numref.Sub(x, y))
	case "*":
		return fromNum(numref.Mul(x, y))
	case "/":
		return fromNum(numref.Div(x, y))
	case "//":
		r, err := numref.IDiv(x, y)
		if err != nil {
			in.rtError(node, err.Error())
		}
		return fromNum(r)
	case "%":
		rs, err := numref.Mod(x, y)
		if err != nil {
			in.rtError(node, err.Error())
		}
		if len(rs) > 1 && !numref.Same(rs[0], rs[1]) {
			unspecified("float modulo with an infinite divisor")
		}
		return fromNum(rs[0])
	case "^":
		approx, exact, has := numref.Pow(x, y)
		if has {
			return exact
		}
		if approx == approx && approx != 0 && approx-approx == 0 {
			// inexact finite result: implementations may differ in the last place
			unspecified("exponentiation with an inexact result")
		}
		return approx
	}
	panic("luaref: unknown arithmetic operator")
}

func (in *Interp) equals(a, b Value) bool {
	if rawEquals(a, b) {
		return true
	}
	ta, oka := a.(*Table)
	tb, okb := b.(*Table)
	if !oka || !okb {
		return false
	}
	h := in.metaOf(ta, "__eq")
	if h == nil {
		h = in.metaOf(tb, "__eq")
	}
	if h == nil {
		return false
	}
	in.feat("meta:__eq")
	vs := in.call(h, []Value{a, b}, nil, false)
	return len(vs) > 0 && truth(vs[0])
}

func (in *Interp) less(a, b Value, node any, orEqual bool) bool {
	x, okx := toNum(a)
	y, oky := toNum(b)
	if okx && oky {
		if orEqual {
			return numref.Le(x, y)
		}
		return numref.Lt(x, y)
	}
	if _, ok := a.(*ErrStr); ok {
		unspecified("ordering an error message")
	}
	if _, ok := b.(*ErrStr); ok {
		unspecified("ordering an error message")
	}
	sa, oka := a.(string)
	sb, okb := b.(string)
	if oka && okb {
		for i := 0; i < len(sa) && i < len(sb); i++ {
			if sa[i] >= 128 || sb[i] >= 128 {
				// strcoll on non-ASCII bytes depends on the locale
				if sa[i] != sb[i] {
					unspecified("ordering strings with non-ASCII bytes")
				}
			}
		}
		c := strings.Compare(sa, sb)
		if orEqual {
			return c <= 0
		}
		return c < 0
	}
	event := "__lt"
	if orEqual {
		event = "__le"
	}
	return truth(in.binMeta(event, a, b, node, "attempt to compare"))
}

func (in *Interp) unop(op string, v Value, node any) Value {
	switch op {
	case "not":
		return !truth(v)
	case "-":
		if n, ok := toNumCoerce(v); ok {
			return fromNum(numref.Unm(n))
		}
		h := in.metaOf(v, "__unm")
		if h == nil {
			in.rtError(node, "attempt to perform arithmetic")
		}
		in.feat("meta:__unm")
		return first(in.call(h, []Value{v, v}, node, false))
	case "~":
		if n, ok := toNum(v); ok {
			r, err := numref.Bnot(n)
			if err != nil {
				in.rtError(node, err.Error())
			}
			return fromNum(r)
		}
		if isStringy(v) {
			unspecified("string operand of a bitwise operator")
		}
		h := in.metaOf(v, "__bnot")
		if h == nil {
			in.rtError(node, "attempt to perform bitwise operation")
		}
		in.feat("meta:__bnot")
		return first(in.call(h, []Value{v, v}, node, false))
	case "#":
		switch x := v.(type) {
		case string:
			return int64(len(x))
		case *ErrStr:
			unspecified("length of an error message")
		case *Table:
			if h := in.metaOf(x, "__len"); h != nil {
				in.feat("meta:__len")
				return first(in.call(h, []Value{v}, node, false))
			}
			return x.Border()
		}
		h := in.metaOf(v, "__len")
		if h == nil {
			in.rtError(node, "attempt to get length")
		}
		return first(in.call(h, []Value{v}, node, false))
	}
	panic("luaref: unknown unary operator " + op)
}

func first(vs []Value) Value {
	if len(vs) == 0 {
		return nil
	}
	return vs[0]
}
