package luaref

import (
	"fmt"

	"verif/internal/mlua"
	"verif/internal/numref"
)

// env is a lexical environment: a linked list of single bindings, so that a
// closure sees exactly the bindings visible where it was created and every
// execution of a `local` statement creates a fresh variable.
type env struct {
	name   string
	cell   *cell
	parent *env
}

type cell struct {
	v      Value
	attrib string
}

func (e *env) bind(name string, v Value, attrib string) *env {
	return &env{name: name, cell: &cell{v: v, attrib: attrib}, parent: e}
}

func (e *env) lookup(name string) *cell {
	for ; e != nil; e = e.parent {
		if e.name == name {
			return e.cell
		}
	}
	return nil
}

// Quirks relaxes the model for open known findings of golua (set by the
// checks from /verif/known_findings.json; empty when nothing is open):
//
//	tbc-nonclosable-no-position: the error for `local x <close> = <non-closable>`
//	  may lack the chunk:line: prefix.
var Quirks = map[string]bool{}

// StrictCoroutineDeath makes the model discard programs in which an error
// kills a coroutine that still has pending to-be-closed variables (see
// runCloser). By default the model closes them while the error unwinds.
var StrictCoroutineDeath = false

type sigKind int

const (
	sigNone sigKind = iota
	sigBreak
	sigGoto
	sigReturn
	sigError
)

type signal struct {
	kind  sigKind
	label string
	vals  []Value
	err   *LuaError
}

type frame struct {
	fn   *Function
	site any  // call-site node in the caller (nil when called from a builtin / host)
	tail bool // called by `return f(...)`
	lua  bool
}

// Interp is one run of the reference interpreter.
type Interp struct {
	Lines       mlua.Lines
	Chunk       string
	Globals     *Table
	StringLib   *Table
	Events      [][]string
	canon       canon
	steps       int
	MaxSteps    int
	frames      []frame
	cur         *Coroutine
	coros       []*Coroutine
	methodProto map[*mlua.FuncStmt]*mlua.Func
	mainCo      *Coroutine
	stringMeta  *Table
	inHandler   bool
	pairsIter   *Function
	// OrderSensitive is set when the program called next() directly on a table
	// with several keys (the traversal order is not specified).
	OrderSensitive bool
	// Features observed during the run (for non-triviality classification).
	Feat map[string]int
}

// Result is the observation of a run.
type Result struct {
	Events      [][]string
	Rets        []string
	Err         string // canonical error token ("" if none)
	Unspecified string // non-empty: the case is discarded
	Budget      bool
	Feat        map[string]int
	// OrderSensitive: the program observed an unspecified traversal order.
	OrderSensitive bool
}

// New creates an interpreter with the standard globals.
func New(lines mlua.Lines, chunk string) *Interp {
	in := &Interp{Lines: lines, Chunk: chunk, Globals: NewTable(), MaxSteps: 2_000_000, Feat: map[string]int{}}
	in.canon.ids = map[any]int{}
	in.installBuiltins()
	return in
}

// EncArgs canonically encodes host-provided values (so that tables passed as
// arguments are numbered like on the golua side).
func (in *Interp) Enc(v Value) string { return in.canon.enc(v) }

func (in *Interp) step() {
	in.steps++
	if in.steps > in.MaxSteps {
		panic(Budget{})
	}
}

func (in *Interp) feat(name string) { in.Feat[name]++ }

// Run executes block as the main chunk with the given vararg values.
func (in *Interp) Run(block []mlua.Stmt, args []Value) (res Result) {
	defer func() {
		in.killCoroutines()
		res.Events = in.Events
		res.Feat = in.Feat
		res.OrderSensitive = in.OrderSensitive
		if p := recover(); p != nil {
			switch x := p.(type) {
			case Unspecified:
				res.Unspecified = x.Reason
			case Budget:
				res.Budget = true
			case *LuaError:
				res.Err = in.canon.enc(x.Val)
			default:
				panic(p)
			}
		}
	}()
	main := &Function{Proto: &mlua.Func{IsVar: true, Body: block}, Name: "main chunk"}
	vals := in.call(main, args, nil, false)
	for _, v := range vals {
		res.Rets = append(res.Rets, in.canon.enc(v))
	}
	return
}

// ---------------------------------------------------------------- errors

func (in *Interp) posOf(node any) (line, from, to int) {
	if node == nil {
		return 0, 0, 0
	}
	if p, ok := in.Lines[node]; ok {
		if p.Known {
			return p.Line, 0, 0
		}
		return 0, p.From, p.To
	}
	return 0, 0, 0
}

// rtError raises a runtime error (message text unknown) at node.
func (in *Interp) rtError(node any, what string) {
	in.feat("runtime-error")
	line, from, to := in.posOf(node)
	e := &ErrStr{Line: line, From: from, To: to}
	if line == 0 && from == 0 {
		e.Any = true
	}
	_ = what
	in.raise(e)
}

// libError raises an error from inside a builtin (text and position prefix
// are implementation matters).
func (in *Interp) libError(what string) {
	in.feat("lib-error")
	_ = what
	in.raise(&ErrStr{Any: true})
}

// ---------------------------------------------------------------- calls

const maxDepth = 190

// call calls f with args. site is the calling node (nil if called by a
// builtin or the host).
func (in *Interp) call(f Value, args []Value, site any, tail bool) []Value {
	in.step()
	fn, ok := f.(*Function)
	if !ok {
		h := in.metaOf(f, "__call")
		if h == nil {
			in.rtError(site, "attempt to call a "+typeName(f)+" value")
		}
		in.feat("meta:__call")
		return in.call(h, append([]Value{f}, args...), site, tail)
	}
	if len(in.frames) > maxDepth {
		unspecified("call depth beyond the model's bound")
	}
	if fn.Builtin != nil {
		in.frames = append(in.frames, frame{fn: fn, site: site, tail: tail})
		defer func() { in.frames = in.frames[:len(in.frames)-1] }()
		return fn.Builtin(in, site, args)
	}
	in.frames = append(in.frames, frame{fn: fn, site: site, tail: tail, lua: true})
	defer func() { in.frames = in.frames[:len(in.frames)-1] }()
	e := fn.Env
	p := fn.Proto
	for i, name := range p.Params {
		var v Value
		if i < len(args) {
			v = args[i]
		}
		e = e.bind(name, v, "")
	}
	if p.IsVar {
		var extra []Value
		if len(args) > len(p.Params) {
			extra = append(extra, args[len(p.Params):]...)
		}
		e = e.bind("...", extra, "")
	}
	sig := in.execBlock(p.Body, e)
	switch sig.kind {
	case sigNone:
		return nil
	case sigReturn:
		return sig.vals
	case sigError:
		panic(sig.err)
	case sigBreak:
		panic("luaref: break outside a loop")
	default:
		panic("luaref: goto " + sig.label + " escaped its function")
	}
}

// protect runs f as a protected call (pcall when handler is nil, xpcall
// otherwise) and converts a Lua error into a return value.
func (in *Interp) protect(f func() []Value, handler Value) (vals []Value, err *LuaError) {
	co := in.curCo()
	co.prot++
	co.handlers = append(co.handlers, handler)
	defer func() {
		co.prot--
		co.handlers = co.handlers[:len(co.handlers)-1]
	}()
	return in.protectRaw(f)
}

// protectRaw catches a Lua error without being a Lua-visible protected call.
func (in *Interp) protectRaw(f func() []Value) (vals []Value, err *LuaError) {
	nframes := len(in.frames)
	defer func() {
		if p := recover(); p != nil {
			if le, ok := p.(*LuaError); ok && !le.Closing {
				in.frames = in.frames[:nframes]
				err = le
				return
			}
			panic(p)
		}
	}()
	return f(), nil
}

// ---------------------------------------------------------------- blocks

type tbcEntry struct {
	v   Value
	idx int
}

// execBlock runs stmts in a new scope on top of e.
func (in *Interp) execBlock(stmts []mlua.Stmt, e *env) signal {
	return in.execBlockThen(stmts, e, nil)
}

// execBlockThen is execBlock with an optional function run at the normal end
// of the block, inside its scope and before its to-be-closed variables are
// closed (the condition of repeat-until).
func (in *Interp) execBlockThen(stmts []mlua.Stmt, e *env, then func(e *env) signal) signal {
	var tbc []tbcEntry
	labelEnv := map[int]*env{}
	closeFrom := func(minIdx int, sig signal) signal {
		for len(tbc) > 0 && tbc[len(tbc)-1].idx >= minIdx {
			ent := tbc[len(tbc)-1]
			tbc = tbc[:len(tbc)-1]
			sig = in.runCloser(ent.v, sig)
		}
		return sig
	}
	i := 0
	for i < len(stmts) {
		in.step()
		st := stmts[i]
		if _, ok := st.(*mlua.Label); ok {
			labelEnv[i] = e
			i++
			continue
		}
		var sig signal
		e, sig = in.execStmt(st, e, i, &tbc)
		if sig.kind == sigNone {
			i++
			continue
		}
		if sig.kind == sigGoto {
			// is the label in this block?
			target := -1
			for j, s2 := range stmts {
				if l, ok := s2.(*mlua.Label); ok && l.Name == sig.label {
					target = j
					break
				}
			}
			if target >= 0 {
				in.feat("goto")
				if target <= i {
					// backward: variables declared after the label go out of scope
					in.feat("goto-backward")
					sig2 := closeFrom(target+1, signal{})
					if sig2.kind != sigNone {
						return closeFrom(0, sig2)
					}
					if le, ok := labelEnv[target]; ok {
						e = le
					}
				}
				i = target
				continue
			}
		}
		return closeFrom(0, sig)
	}
	if then != nil {
		return closeFrom(0, then(e))
	}
	return closeFrom(0, signal{})
}

// runCloser calls the __close metamethod of v while control leaves its scope
// with sig, and returns the signal to continue with.
func (in *Interp) runCloser(v Value, sig signal) signal {
	var errVal Value
	closing := false
	if sig.kind == sigError {
		errVal = sig.err.Val
		closing = sig.err.Closing
		if errVal == closeSentinel {
			errVal = nil
		} else if !closing && in.cur != nil && in.cur.prot == 0 {
			// An error is killing the coroutine. Manual §3.3.8: "if a coroutine
			// ends with an error, it does not unwind its stack, so it does not
			// close any variable" until coroutine.close; property C10/C09 on
			// the other hand list "an error propagating out" among the exits
			// that close. The model follows the second reading (close at once,
			// which is what golua does) unless StrictCoroutineDeath is set,
			// in which case such cases are discarded.
			in.feat("eager-close-at-coroutine-death")
			if StrictCoroutineDeath {
				unspecified("error kills a coroutine that has pending to-be-closed variables")
			}
		}
	}
	in.feat("close-handler-run")
	hco := in.curCo()
	hco.inCloser++
	defer func() { hco.inCloser-- }()
	_, cerr := in.protectRaw(func() []Value {
		h := in.metaOf(v, "__close")
		if h == nil {
			in.rtError(nil, "metamethod 'close'")
		}
		return in.call(h, []Value{v, errVal}, nil, false)
	})
	if cerr != nil {
		in.feat("close-handler-raised")
		// while a coroutine is being closed nothing inside it runs again: the
		// error of a handler cannot be caught by a pcall of that coroutine
		sig = signal{kind: sigError, err: &LuaError{Val: cerr.Val, Closing: closing}}
	}
	return sig
}

// catch runs f, converting a Lua error raised in expression evaluation into
// an error signal.
func (in *Interp) catch(f func() signal) (sig signal) {
	nframes := len(in.frames)
	defer func() {
		if p := recover(); p != nil {
			if le, ok := p.(*LuaError); ok {
				in.frames = in.frames[:nframes]
				sig = signal{kind: sigError, err: le}
				return
			}
			panic(p)
		}
	}()
	return f()
}

func (in *Interp) execStmt(st mlua.Stmt, e *env, idx int, tbc *[]tbcEntry) (*env, signal) {
	out := e
	sig := in.catch(func() signal {
		switch x := st.(type) {
		case *mlua.Local:
			vals := in.evalList(x.Exprs, e, len(x.Names))
			for i, name := range x.Names {
				attrib := ""
				if i < len(x.Attribs) {
					attrib = x.Attribs[i]
				}
				v := vals[i]
				if attrib == "close" {
					in.feat("tbc-declared")
					if v != nil && v != false {
						if in.metaOf(v, "__close") == nil {
							if Quirks["tbc-nonclosable-no-position"] {
								in.raise(&ErrStr{Any: true})
							}
							in.rtError(x, "variable got a non-closable value")
						}
						*tbc = append(*tbc, tbcEntry{v: v, idx: idx})
					}
				}
				out = out.bind(name, v, attrib)
			}
			return signal{}
		case *mlua.Assign:
			in.execAssign(x, e)
			return signal{}
		case *mlua.CallStmt:
			in.evalMulti(x.Call, e, false)
			return signal{}
		case *mlua.Do:
			return in.execBlock(x.Body, e)
		case *mlua.While:
			for {
				in.step()
				if !truth(in.eval(x.Cond, e)) {
					return signal{}
				}
				s := in.execBlock(x.Body, e)
				if s.kind == sigBreak {
					in.feat("break")
					return signal{}
				}
				if s.kind != sigNone {
					return s
				}
			}
		case *mlua.Repeat:
			for {
				in.step()
				// the condition can see the body's locals
				done := false
				s := in.execBlockThen(x.Body, e, func(be *env) signal {
					return in.catch(func() signal {
						done = truth(in.eval(x.Cond, be))
						return signal{}
					})
				})
				if s.kind == sigBreak {
					in.feat("break")
					return signal{}
				}
				if s.kind != sigNone {
					return s
				}
				if done {
					return signal{}
				}
			}
		case *mlua.If:
			for i, c := range x.Conds {
				if truth(in.eval(c, e)) {
					return in.execBlock(x.Blocks[i], e)
				}
			}
			if x.HasElse {
				return in.execBlock(x.Else, e)
			}
			return signal{}
		case *mlua.NumFor:
			return in.execNumFor(x, e)
		case *mlua.GenFor:
			return in.execGenFor(x, e)
		case *mlua.FuncStmt:
			fn := x.F
			if x.Method != "" {
				if in.methodProto == nil {
					in.methodProto = map[*mlua.FuncStmt]*mlua.Func{}
				}
				if fn = in.methodProto[x]; fn == nil {
					fn = &mlua.Func{Params: append([]string{"self"}, x.F.Params...), IsVar: x.F.IsVar, Body: x.F.Body}
					in.methodProto[x] = fn
				}
			}
			f := &Function{Proto: fn, Env: e, Name: x.Path[len(x.Path)-1]}
			if len(x.Path) == 1 && x.Method == "" {
				in.setVar(x.Path[0], f, e, x)
				return signal{}
			}
			obj := in.getVar(x.Path[0], e)
			last := len(x.Path) - 1
			if x.Method != "" {
				last = len(x.Path)
			}
			for _, p := range x.Path[1:last] {
				obj = in.index(obj, p, x)
			}
			key := x.Method
			if key == "" {
				key = x.Path[len(x.Path)-1]
			}
			in.setIndex(obj, key, f, x)
			return signal{}
		case *mlua.LocalFunc:
			out = out.bind(x.Name, nil, "")
			out.cell.v = &Function{Proto: x.F, Env: out, Name: x.Name}
			return signal{}
		case *mlua.Return:
			if len(x.Exprs) == 1 {
				if c, ok := x.Exprs[0].(*mlua.Call); ok {
					in.feat("tail-call-syntax")
					return signal{kind: sigReturn, vals: in.evalCall(c, e, true)}
				}
			}
			return signal{kind: sigReturn, vals: in.evalList(x.Exprs, e, -1)}
		case *mlua.Break:
			return signal{kind: sigBreak}
		case *mlua.Goto:
			return signal{kind: sigGoto, label: x.Label}
		}
		panic(fmt.Sprintf("luaref: unknown statement %T", st))
	})
	return out, sig
}

func (in *Interp) execAssign(x *mlua.Assign, e *env) {
	// Evaluate all expressions before assigning (manual §3.3.3). The order of
	// evaluation among them is not defined; generated programs have at most
	// one order-sensitive member.
	type target struct {
		name     string
		obj, key Value
	}
	targets := make([]target, len(x.Targets))
	for i, t := range x.Targets {
		switch tt := t.(type) {
		case *mlua.Name:
			targets[i] = target{name: tt.N}
		case *mlua.Index:
			targets[i] = target{obj: in.eval(tt.Obj, e), key: in.eval(tt.Key, e)}
		default:
			panic("luaref: bad assignment target")
		}
	}
	vals := in.evalList(x.Exprs, e, len(x.Targets))
	if len(x.Targets) >= 2 {
		in.feat("multi-assign")
	}
	for i, t := range targets {
		if t.name != "" {
			in.setVar(t.name, vals[i], e, x)
		} else {
			in.setIndex(t.obj, t.key, vals[i], x.Targets[i])
		}
	}
}

func (in *Interp) getVar(name string, e *env) Value {
	if c := e.lookup(name); c != nil {
		return c.v
	}
	return in.index(in.Globals, name, nil)
}

func (in *Interp) setVar(name string, v Value, e *env, node any) {
	if c := e.lookup(name); c != nil {
		if c.attrib != "" {
			panic("luaref: assignment to a const/close variable " + name)
		}
		c.v = v
		return
	}
	in.setIndex(in.Globals, name, v, node)
}

func (in *Interp) execNumFor(x *mlua.NumFor, e *env) signal {
	start := in.eval(x.Start, e)
	limit := in.eval(x.Limit, e)
	var step Value = int64(1)
	if x.Step != nil {
		step = in.eval(x.Step, e)
	}
	conv := func(v Value) numref.Num {
		switch s := v.(type) {
		case string:
			if _, ok := numref.StringToNumber(s); ok {
				unspecified("numeric for with a numeric string operand")
			}
		case *ErrStr:
			unspecified("numeric for with an error message operand")
		}
		n, ok := toNum(v)
		if !ok {
			in.rtError(x, "'for' value must be a number")
		}
		return n
	}
	a, l, s := conv(start), conv(limit), conv(step)
	const cap = 1 << 20
	res := numref.ForLoop(a, l, s, cap)
	if res.Err {
		in.rtError(x, "'for' step is zero")
	}
	if len(res.Alt) > 0 {
		unspecified("numeric for whose iteration sequence the manual leaves open (NaN / float rounding)")
	}
	if res.Truncated {
		panic(Budget{})
	}
	for _, v := range res.Values {
		in.step()
		sig := in.execBlock(x.Body, e.bind(x.Var, fromNum(v), ""))
		if sig.kind == sigBreak {
			in.feat("break")
			return signal{}
		}
		if sig.kind != sigNone {
			return sig
		}
	}
	return signal{}
}

func (in *Interp) execGenFor(x *mlua.GenFor, e *env) signal {
	vals := in.evalList(x.Exprs, e, 4)
	f, s, ctl, closing := vals[0], vals[1], vals[2], vals[3]
	var tbc []tbcEntry
	if closing != nil && closing != false {
		if in.metaOf(closing, "__close") == nil {
			in.rtError(x, "variable got a non-closable value")
		}
		tbc = append(tbc, tbcEntry{v: closing})
		in.feat("for-closing-value")
	}
	finish := func(sig signal) signal {
		for len(tbc) > 0 {
			ent := tbc[len(tbc)-1]
			tbc = tbc[:len(tbc)-1]
			sig = in.runCloser(ent.v, sig)
		}
		return sig
	}
	for {
		in.step()
		var rets []Value
		sig := in.catch(func() signal {
			rets = in.call(f, []Value{s, ctl}, x, false)
			return signal{}
		})
		if sig.kind != sigNone {
			return finish(sig)
		}
		if len(rets) == 0 || rets[0] == nil {
			return finish(signal{})
		}
		ctl = rets[0]
		be := e
		for i, name := range x.Names {
			var v Value
			if i < len(rets) {
				v = rets[i]
			}
			be = be.bind(name, v, "")
		}
		sig = in.execBlock(x.Body, be)
		if sig.kind == sigBreak {
			in.feat("break")
			return finish(signal{})
		}
		if sig.kind != sigNone {
			return finish(sig)
		}
	}
}
