package luaref

import (
	"math"
	"strconv"
	"strings"

	"verif/internal/numref"
)

type builtin = func(in *Interp, site any, args []Value) []Value

func arg(args []Value, i int) Value {
	if i < len(args) {
		return args[i]
	}
	return nil
}

func (in *Interp) reg(t *Table, name string, f builtin) {
	t.Set(name, &Function{Name: name, Builtin: f})
}

// argInt converts an argument to an integer as library functions do (floats
// with integer values and numeric strings are accepted).
func (in *Interp) argInt(args []Value, i int, def *int64) int64 {
	v := arg(args, i)
	if v == nil && def != nil {
		return *def
	}
	n, ok := toNumCoerce(v)
	if !ok {
		in.libError("number expected")
	}
	k, ok := numref.ToInteger(n)
	if !ok {
		in.libError("number has no integer representation")
	}
	return k
}

func (in *Interp) argStr(args []Value, i int) string {
	switch x := arg(args, i).(type) {
	case string:
		return x
	case int64:
		return strconv.FormatInt(x, 10)
	case float64:
		unspecified("float converted to a string")
	case *ErrStr:
		unspecified("error message passed to a string function")
	}
	in.libError("string expected")
	return ""
}

func (in *Interp) argTable(args []Value, i int) *Table {
	t, ok := arg(args, i).(*Table)
	if !ok {
		in.libError("table expected")
	}
	return t
}

// errorPosition computes the position prefix for error() at the given level.
func (in *Interp) errorValue(msg Value, level int64) Value {
	s, isStr := msg.(string)
	if !isStr || level <= 0 {
		if es, ok := msg.(*ErrStr); ok && level > 0 {
			_ = es
			return &ErrStr{Any: true}
		}
		return msg
	}
	// frames: [..., caller-of-caller, caller (the function that called error), error]
	n := len(in.frames)
	// frames[n-1] is error itself; its site is the node where error was called.
	var site any
	optional := false
	switch level {
	case 1:
		f := in.frames[n-1]
		site = f.site
		// the function that called error must be a Lua function
		if n < 2 || !in.frames[n-2].lua || site == nil {
			optional = true
		}
	case 2:
		if n < 2 {
			return &ErrStr{Any: true}
		}
		f := in.frames[n-2] // the function that called error
		site = f.site
		if !f.lua || site == nil || f.tail || n < 3 || !in.frames[n-3].lua {
			optional = true
		}
		if f.tail {
			return &ErrStr{Any: true}
		}
	default:
		return &ErrStr{Any: true}
	}
	if site == nil {
		return &ErrStr{AnyLine: true, Msg: s, MsgKnown: true, PrefixOptional: true}
	}
	line, from, to := in.posOf(site)
	if line > 0 && !optional {
		return in.Chunk + ":" + strconv.Itoa(line) + ": " + s
	}
	if line == 0 && from == 0 {
		return &ErrStr{Any: true}
	}
	return &ErrStr{Line: line, From: from, To: to, Msg: s, MsgKnown: true, PrefixOptional: optional}
}

func (in *Interp) installBuiltins() {
	G := in.Globals
	G.Set("_G", G)
	// redump(f) stands for load(string.dump(f)): the identity on functions
	// without free local variables (property C13).
	in.reg(G, "redump", func(in *Interp, site any, args []Value) []Value {
		return []Value{arg(args, 0)}
	})
	in.reg(G, "emit", func(in *Interp, site any, args []Value) []Value {
		ev := make([]string, len(args))
		for i, a := range args {
			ev[i] = in.canon.enc(a)
		}
		if len(in.Events) > 20000 {
			panic(Budget{})
		}
		in.Events = append(in.Events, ev)
		return nil
	})
	in.reg(G, "type", func(in *Interp, site any, args []Value) []Value {
		if len(args) == 0 {
			in.libError("value expected")
		}
		return []Value{typeName(args[0])}
	})
	in.reg(G, "assert", func(in *Interp, site any, args []Value) []Value {
		if len(args) == 0 {
			in.libError("value expected")
		}
		if truth(args[0]) {
			return args
		}
		if len(args) > 1 {
			in.raise(args[1])
		}
		in.raise("assertion failed!")
		return nil
	})
	in.reg(G, "error", func(in *Interp, site any, args []Value) []Value {
		in.feat("error-call")
		one := int64(1)
		level := in.argInt(args, 1, &one)
		in.raise(in.errorValue(arg(args, 0), level))
		return nil
	})
	in.reg(G, "pcall", func(in *Interp, site any, args []Value) []Value {
		in.feat("pcall")
		if len(args) == 0 {
			in.libError("value expected")
		}
		vals, err := in.protect(func() []Value { return in.call(args[0], args[1:], nil, false) }, nil)
		if err != nil {
			in.feat("pcall-caught")
			return []Value{false, err.Val}
		}
		return append([]Value{true}, vals...)
	})
	in.reg(G, "xpcall", func(in *Interp, site any, args []Value) []Value {
		in.feat("xpcall")
		if len(args) < 2 {
			in.libError("value expected")
		}
		// the handler runs at the point of the error (see Interp.raise), before
		// any unwinding
		if _, ok := args[1].(*Function); !ok {
			unspecified("xpcall with a non-function handler")
		}
		vals, err := in.protect(func() []Value { return in.call(args[0], args[2:], nil, false) }, args[1])
		if err != nil {
			in.feat("xpcall-caught")
			return []Value{false, err.Val}
		}
		return append([]Value{true}, vals...)
	})
	in.reg(G, "select", func(in *Interp, site any, args []Value) []Value {
		in.feat("select")
		if s, ok := arg(args, 0).(string); ok && s == "#" {
			return []Value{int64(len(args) - 1)}
		}
		n := in.argInt(args, 0, nil)
		rest := args[1:]
		if n < 0 {
			n = int64(len(rest)) + n
			if n < 0 {
				in.libError("index out of range")
			}
			return rest[n:]
		}
		if n == 0 {
			in.libError("index out of range")
		}
		if n > int64(len(rest)) {
			return nil
		}
		return rest[n-1:]
	})
	in.reg(G, "rawget", func(in *Interp, site any, args []Value) []Value {
		return []Value{in.argTable(args, 0).Get(arg(args, 1))}
	})
	in.reg(G, "rawset", func(in *Interp, site any, args []Value) []Value {
		t := in.argTable(args, 0)
		in.rawsetCheck(t, arg(args, 1), arg(args, 2), nil)
		return []Value{t}
	})
	in.reg(G, "rawequal", func(in *Interp, site any, args []Value) []Value {
		return []Value{rawEquals(arg(args, 0), arg(args, 1))}
	})
	in.reg(G, "rawlen", func(in *Interp, site any, args []Value) []Value {
		switch x := arg(args, 0).(type) {
		case *Table:
			return []Value{x.Border()}
		case string:
			return []Value{int64(len(x))}
		}
		in.libError("table or string expected")
		return nil
	})
	in.reg(G, "setmetatable", func(in *Interp, site any, args []Value) []Value {
		t := in.argTable(args, 0)
		if t.Meta != nil && t.Meta.Get("__metatable") != nil {
			in.libError("cannot change a protected metatable")
		}
		switch m := arg(args, 1).(type) {
		case nil:
			if len(args) < 2 {
				in.libError("nil or table expected")
			}
			t.Meta = nil
		case *Table:
			t.Meta = m
			if m.Get("__gc") != nil {
				unspecified("__gc finaliser (timing is the collector's)")
			}
		default:
			in.libError("nil or table expected")
		}
		return []Value{t}
	})
	in.reg(G, "getmetatable", func(in *Interp, site any, args []Value) []Value {
		mt := in.metatable(arg(args, 0))
		if mt == nil {
			return []Value{nil}
		}
		if p := mt.Get("__metatable"); p != nil {
			return []Value{p}
		}
		return []Value{mt}
	})
	in.reg(G, "tostring", func(in *Interp, site any, args []Value) []Value {
		if len(args) == 0 {
			in.libError("value expected")
		}
		v := args[0]
		if h := in.metaOf(v, "__tostring"); h != nil {
			in.feat("meta:__tostring")
			r := first(in.call(h, []Value{v}, nil, false))
			if _, ok := r.(string); !ok {
				if _, ok := r.(*ErrStr); !ok {
					in.libError("'__tostring' must return a string")
				}
			}
			return []Value{r}
		}
		switch x := v.(type) {
		case nil:
			return []Value{"nil"}
		case bool:
			if x {
				return []Value{"true"}
			}
			return []Value{"false"}
		case int64:
			return []Value{strconv.FormatInt(x, 10)}
		case string:
			return []Value{x}
		case *ErrStr:
			return []Value{x}
		case float64:
			unspecified("float converted to a string")
		}
		unspecified("tostring of a reference value (address)")
		return nil
	})
	in.reg(G, "tonumber", func(in *Interp, site any, args []Value) []Value {
		if len(args) == 0 {
			in.libError("value expected")
		}
		if len(args) >= 2 && args[1] != nil {
			unspecified("tonumber with a base")
		}
		switch x := args[0].(type) {
		case int64, float64:
			return []Value{x}
		case string:
			n, ok := numref.StringToNumber(x)
			if !ok {
				return []Value{nil}
			}
			if alt, _ := numref.StringToNumberAlt(x); !numref.Same(alt, n) {
				unspecified("tonumber of -2^63 spelled in decimal")
			}
			return []Value{fromNum(n)}
		case *ErrStr:
			unspecified("tonumber of an error message")
		}
		return []Value{nil}
	})
	in.reg(G, "next", func(in *Interp, site any, args []Value) []Value {
		t := in.argTable(args, 0)
		if t.Count() > 1 && arg(args, 1) == nil {
			in.OrderSensitive = true
		}
		k, v, ok := t.Next(arg(args, 1))
		if !ok {
			in.libError("invalid key to 'next'")
		}
		if k == nil {
			return []Value{nil}
		}
		return []Value{k, v}
	})
	in.pairsIter = &Function{Name: "next", Builtin: func(in *Interp, site any, args []Value) []Value {
		k, v, ok := in.argTable(args, 0).Next(arg(args, 1))
		if !ok {
			in.libError("invalid key to 'next'")
		}
		if k == nil {
			return []Value{nil}
		}
		return []Value{k, v}
	}}
	in.reg(G, "pairs", func(in *Interp, site any, args []Value) []Value {
		if len(args) == 0 {
			in.libError("table expected")
		}
		if h := in.metaOf(args[0], "__pairs"); h != nil {
			in.feat("meta:__pairs")
			vs := in.call(h, []Value{args[0]}, nil, false)
			for len(vs) < 3 {
				vs = append(vs, nil)
			}
			return vs[:3]
		}
		t := in.argTable(args, 0)
		in.feat("pairs")
		return []Value{in.pairsIter, t, nil}
	})
	ipairsIter := &Function{Name: "ipairs_iter", Builtin: func(in *Interp, site any, args []Value) []Value {
		i := in.argInt(args, 1, nil) + 1
		v := in.index(arg(args, 0), i, nil)
		if v == nil {
			return []Value{nil}
		}
		return []Value{i, v}
	}}
	in.reg(G, "ipairs", func(in *Interp, site any, args []Value) []Value {
		if len(args) == 0 {
			in.libError("table expected")
		}
		in.feat("ipairs")
		return []Value{ipairsIter, args[0], int64(0)}
	})

	// math
	M := NewTable()
	G.Set("math", M)
	M.Set("huge", math.Inf(1))
	M.Set("maxinteger", int64(math.MaxInt64))
	M.Set("mininteger", int64(math.MinInt64))
	in.reg(M, "type", func(in *Interp, site any, args []Value) []Value {
		if len(args) == 0 {
			in.libError("value expected")
		}
		switch args[0].(type) {
		case int64:
			return []Value{"integer"}
		case float64:
			return []Value{"float"}
		}
		return []Value{nil}
	})
	in.reg(M, "tointeger", func(in *Interp, site any, args []Value) []Value {
		switch x := arg(args, 0).(type) {
		case int64:
			return []Value{x}
		case float64:
			if i, ok := numref.FloatToInt(x); ok {
				return []Value{i}
			}
			return []Value{nil}
		case string, *ErrStr:
			unspecified("math.tointeger of a string")
		}
		return []Value{nil}
	})
	in.reg(M, "floor", func(in *Interp, site any, args []Value) []Value {
		n, ok := toNumCoerce(arg(args, 0))
		if !ok {
			in.libError("number expected")
		}
		if n.IsInt {
			return []Value{n.I}
		}
		f := math.Floor(n.F)
		if i, ok := numref.FloatToInt(f); ok {
			return []Value{i}
		}
		return []Value{f}
	})
	in.reg(M, "abs", func(in *Interp, site any, args []Value) []Value {
		n, ok := toNumCoerce(arg(args, 0))
		if !ok {
			in.libError("number expected")
		}
		if n.IsInt {
			if n.I < 0 {
				return []Value{fromNum(numref.Unm(n))}
			}
			return []Value{n.I}
		}
		return []Value{math.Abs(n.F)}
	})
	minmax := func(isMax bool) builtin {
		return func(in *Interp, site any, args []Value) []Value {
			if len(args) == 0 {
				in.libError("number expected")
			}
			best, ok := toNumCoerce(args[0])
			if !ok {
				in.libError("number expected")
			}
			if isStringy(args[0]) {
				unspecified("math.max/min of a string")
			}
			for _, a := range args[1:] {
				n, ok := toNumCoerce(a)
				if !ok {
					in.libError("number expected")
				}
				if isStringy(a) {
					unspecified("math.max/min of a string")
				}
				if _, ord := numref.Cmp(n, best); !ord {
					unspecified("math.max/min with NaN")
				}
				if (isMax && numref.Lt(best, n)) || (!isMax && numref.Lt(n, best)) {
					best = n
				}
			}
			return []Value{fromNum(best)}
		}
	}
	in.reg(M, "max", minmax(true))
	in.reg(M, "min", minmax(false))

	// string
	S := NewTable()
	G.Set("string", S)
	in.StringLib = S
	in.stringMeta = NewTable()
	in.stringMeta.Set("__index", S)
	in.reg(S, "len", func(in *Interp, site any, args []Value) []Value {
		return []Value{int64(len(in.argStr(args, 0)))}
	})
	in.reg(S, "sub", func(in *Interp, site any, args []Value) []Value {
		s := in.argStr(args, 0)
		one, minus1 := int64(1), int64(-1)
		i := in.argInt(args, 1, &one)
		j := in.argInt(args, 2, &minus1)
		l := int64(len(s))
		if i < 0 {
			i = l + i + 1
			if i < 1 {
				i = 1
			}
		} else if i == 0 {
			i = 1
		}
		if j < 0 {
			j = l + j + 1
		} else if j > l {
			j = l
		}
		if i > j {
			return []Value{""}
		}
		return []Value{s[i-1 : j]}
	})
	in.reg(S, "rep", func(in *Interp, site any, args []Value) []Value {
		s := in.argStr(args, 0)
		n := in.argInt(args, 1, nil)
		sep := ""
		if arg(args, 2) != nil {
			sep = in.argStr(args, 2)
		}
		if n <= 0 {
			return []Value{""}
		}
		if (int64(len(s))+int64(len(sep)))*n > 1<<20 {
			panic(Budget{})
		}
		parts := make([]string, n)
		for i := range parts {
			parts[i] = s
		}
		return []Value{strings.Join(parts, sep)}
	})
	in.reg(S, "upper", func(in *Interp, site any, args []Value) []Value {
		b := []byte(in.argStr(args, 0))
		for i, c := range b {
			if c >= 'a' && c <= 'z' {
				b[i] = c - 32
			} else if c >= 128 {
				unspecified("case mapping of non-ASCII bytes (locale)")
			}
		}
		return []Value{string(b)}
	})
	in.reg(S, "lower", func(in *Interp, site any, args []Value) []Value {
		b := []byte(in.argStr(args, 0))
		for i, c := range b {
			if c >= 'A' && c <= 'Z' {
				b[i] = c + 32
			} else if c >= 128 {
				unspecified("case mapping of non-ASCII bytes (locale)")
			}
		}
		return []Value{string(b)}
	})
	in.reg(S, "byte", func(in *Interp, site any, args []Value) []Value {
		s := in.argStr(args, 0)
		one := int64(1)
		i := in.argInt(args, 1, &one)
		l := int64(len(s))
		if i < 0 {
			i = l + i + 1
		}
		j := i
		if arg(args, 2) != nil {
			j = in.argInt(args, 2, nil)
			if j < 0 {
				j = l + j + 1
			}
		}
		if i < 1 {
			i = 1
		}
		if j > l {
			j = l
		}
		var out []Value
		for k := i; k <= j; k++ {
			out = append(out, int64(s[k-1]))
		}
		return out
	})
	in.reg(S, "char", func(in *Interp, site any, args []Value) []Value {
		b := make([]byte, len(args))
		for i := range args {
			c := in.argInt(args, i, nil)
			if c < 0 || c > 255 {
				in.libError("value out of range")
			}
			b[i] = byte(c)
		}
		return []Value{string(b)}
	})

	// table
	T := NewTable()
	G.Set("table", T)
	in.reg(T, "pack", func(in *Interp, site any, args []Value) []Value {
		t := NewTable()
		for i, a := range args {
			t.Set(int64(i+1), a)
		}
		t.Set("n", int64(len(args)))
		return []Value{t}
	})
	unpack := func(in *Interp, site any, args []Value) []Value {
		one := int64(1)
		i := in.argInt(args, 1, &one)
		var j int64
		if arg(args, 2) != nil {
			j = in.argInt(args, 2, nil)
		} else {
			j = in.lenOf(arg(args, 0))
		}
		if j-i > 200 {
			unspecified("table.unpack of a large range")
		}
		var out []Value
		for k := i; k <= j; k++ {
			out = append(out, in.index(arg(args, 0), k, nil))
		}
		return out
	}
	in.reg(T, "unpack", unpack)
	in.reg(T, "insert", func(in *Interp, site any, args []Value) []Value {
		t := arg(args, 0)
		if _, ok := t.(*Table); !ok {
			in.libError("table expected")
		}
		n := in.lenOf(t)
		switch len(args) {
		case 2:
			in.setIndex(t, n+1, args[1], nil)
		case 3:
			pos := in.argInt(args, 1, nil)
			if pos < 1 || pos > n+1 {
				in.libError("position out of bounds")
			}
			for k := n + 1; k > pos; k-- {
				in.setIndex(t, k, in.index(t, k-1, nil), nil)
			}
			in.setIndex(t, pos, args[2], nil)
		default:
			in.libError("wrong number of arguments to 'insert'")
		}
		return nil
	})
	in.reg(T, "remove", func(in *Interp, site any, args []Value) []Value {
		t := arg(args, 0)
		if _, ok := t.(*Table); !ok {
			in.libError("table expected")
		}
		n := in.lenOf(t)
		pos := n
		if len(args) >= 2 {
			pos = in.argInt(args, 1, nil)
			if pos != n && (pos < 1 || pos > n+1) {
				in.libError("position out of bounds")
			}
		}
		v := in.index(t, pos, nil)
		for ; pos < n; pos++ {
			in.setIndex(t, pos, in.index(t, pos+1, nil), nil)
		}
		in.setIndex(t, pos, nil, nil)
		return []Value{v}
	})
	in.reg(T, "concat", func(in *Interp, site any, args []Value) []Value {
		t := arg(args, 0)
		if _, ok := t.(*Table); !ok {
			in.libError("table expected")
		}
		sep := ""
		if arg(args, 1) != nil {
			sep = in.argStr(args, 1)
		}
		one := int64(1)
		i := in.argInt(args, 2, &one)
		var j int64
		if arg(args, 3) != nil {
			j = in.argInt(args, 3, nil)
		} else {
			j = in.lenOf(t)
		}
		var parts []string
		for k := i; k <= j; k++ {
			v := in.index(t, k, nil)
			switch v.(type) {
			case string, int64:
				s, _ := tostr(v)
				parts = append(parts, s)
			case float64:
				unspecified("float converted to a string")
			case *ErrStr:
				unspecified("error message concatenated")
			default:
				in.libError("invalid value in table for 'concat'")
			}
			if len(parts) > 10000 {
				panic(Budget{})
			}
		}
		return []Value{strings.Join(parts, sep)}
	})

	in.installCoroutineLib()
}

// lenOf is the length operator with metamethods, as library functions use it.
func (in *Interp) lenOf(v Value) int64 {
	r := in.unop("#", v, nil)
	n, ok := r.(int64)
	if !ok {
		if f, isF := r.(float64); isF {
			if i, ok := numref.FloatToInt(f); ok {
				return i
			}
		}
		in.libError("object length is not an integer")
	}
	return n
}
