// Package mlua is the generator's own Lua 5.4 AST ("MiniLua"): it is not
// golua's ast package. Programs are generated as values of these types,
// rendered to source text in many spellings (render.go) and interpreted by
// the reference interpreter (internal/luaref).
package mlua

// Expr is an expression node.
type Expr interface{ isExpr() }

// Stmt is a statement node.
type Stmt interface{ isStmt() }

type (
	// (one byte each: pointers to zero-size values are not distinct in Go, and
	// nodes are used as map keys)
	Nil    struct{ _ byte }
	True   struct{ _ byte }
	False  struct{ _ byte }
	Vararg struct{ _ byte }
	Int    struct{ V int64 }
	Float  struct{ V float64 }
	Str    struct{ V string }
	// Name is a variable reference, resolved lexically (local) or as a global.
	Name struct{ N string }
	// Index is Obj[Key]; a Str key that is an identifier may be rendered Obj.key.
	Index struct{ Obj, Key Expr }
	// Call is Fn(Args...).
	Call struct {
		Fn   Expr
		Args []Expr
	}
	// MethCall is Obj:Name(Args...).
	MethCall struct {
		Obj  Expr
		Name string
		Args []Expr
	}
	// Func is a function literal.
	Func struct {
		Params []string
		IsVar  bool
		Body   []Stmt
	}
	// Bin is a binary operator (including "and", "or").
	Bin struct {
		Op   string
		L, R Expr
	}
	// Un is a unary operator: "-", "not", "#", "~".
	Un struct {
		Op string
		X  Expr
	}
	// Paren is an explicit parenthesised expression (truncates multi-values).
	Paren struct{ X Expr }
	// Table is a table constructor.
	Table struct{ Items []TItem }
)

// TItem is one field of a table constructor: positional (Key == nil and
// NameKey == ""), named (NameKey) or computed (Key).
type TItem struct {
	Key     Expr
	NameKey string
	Val     Expr
}

func (*Nil) isExpr()      {}
func (*True) isExpr()     {}
func (*False) isExpr()    {}
func (*Vararg) isExpr()   {}
func (*Int) isExpr()      {}
func (*Float) isExpr()    {}
func (*Str) isExpr()      {}
func (*Name) isExpr()     {}
func (*Index) isExpr()    {}
func (*Call) isExpr()     {}
func (*MethCall) isExpr() {}
func (*Func) isExpr()     {}
func (*Bin) isExpr()      {}
func (*Un) isExpr()       {}
func (*Paren) isExpr()    {}
func (*Table) isExpr()    {}

type (
	// Local is `local n1 <a1>, n2 = e1, e2`.
	Local struct {
		Names   []string
		Attribs []string // "", "const" or "close" per name
		Exprs   []Expr
	}
	Assign struct {
		Targets []Expr // *Name or *Index
		Exprs   []Expr
	}
	CallStmt struct{ Call Expr } // *Call or *MethCall
	Do       struct{ Body []Stmt }
	While    struct {
		Cond Expr
		Body []Stmt
	}
	Repeat struct {
		Body []Stmt
		Cond Expr
	}
	If struct {
		Conds   []Expr
		Blocks  [][]Stmt
		Else    []Stmt
		HasElse bool
	}
	NumFor struct {
		Var                string
		Start, Limit, Step Expr // Step may be nil
		Body               []Stmt
	}
	GenFor struct {
		Names []string
		Exprs []Expr
		Body  []Stmt
	}
	// FuncStmt is `function a.b.c:m(...) ... end`; Path has >= 1 names.
	FuncStmt struct {
		Path   []string
		Method string // "" if none
		F      *Func  // for a method, F.Params does NOT include self
	}
	LocalFunc struct {
		Name string
		F    *Func
	}
	Return struct{ Exprs []Expr }
	Break  struct{ _ byte }
	Goto   struct{ Label string }
	Label  struct{ Name string }
)

func (*Local) isStmt()     {}
func (*Assign) isStmt()    {}
func (*CallStmt) isStmt()  {}
func (*Do) isStmt()        {}
func (*While) isStmt()     {}
func (*Repeat) isStmt()    {}
func (*If) isStmt()        {}
func (*NumFor) isStmt()    {}
func (*GenFor) isStmt()    {}
func (*FuncStmt) isStmt()  {}
func (*LocalFunc) isStmt() {}
func (*Return) isStmt()    {}
func (*Break) isStmt()     {}
func (*Goto) isStmt()      {}
func (*Label) isStmt()     {}

// Convenience constructors.

func N(name string) *Name           { return &Name{N: name} }
func I(v int64) *Int                { return &Int{V: v} }
func S(v string) *Str               { return &Str{V: v} }
func B(op string, l, r Expr) *Bin   { return &Bin{Op: op, L: l, R: r} }
func U(op string, x Expr) *Un       { return &Un{Op: op, X: x} }
func C(fn Expr, args ...Expr) *Call { return &Call{Fn: fn, Args: args} }
func Idx(obj, key Expr) *Index      { return &Index{Obj: obj, Key: key} }
func Field(obj Expr, name string) *Index {
	return &Index{Obj: obj, Key: &Str{V: name}}
}
func Glob(path ...string) Expr {
	var e Expr = &Name{N: path[0]}
	for _, p := range path[1:] {
		e = Field(e, p)
	}
	return e
}
func Emit(args ...Expr) *CallStmt { return &CallStmt{Call: C(N("emit"), args...)} }

// IsMulti reports whether e is a multi-valued expression (call or vararg).
func IsMulti(e Expr) bool {
	switch e.(type) {
	case *Call, *MethCall, *Vararg:
		return true
	}
	return false
}
