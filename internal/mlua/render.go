package mlua

import (
	"fmt"
	"math"
	"strconv"
	"strings"
)

// Chooser supplies the renderer's spelling choices. Choose(n) returns a value
// in [0,n). A nil Chooser always chooses 0 (the canonical rendering).
type Chooser interface{ Choose(n int) int }

// Pos is the source position information of a node: the line of the simple
// statement (or control header) it belongs to. When that statement spans
// several lines (it contains a multi-line function literal) the line that an
// error would be attributed to is not determined by the manual: Known is
// false and [From,To] is the span.
type Pos struct {
	Line     int
	Known    bool
	From, To int
}

// Lines maps AST nodes (expression and statement pointers) to positions.
type Lines map[any]*Pos

var keywords = map[string]bool{
	"and": true, "break": true, "do": true, "else": true, "elseif": true, "end": true, "false": true,
	"for": true, "function": true, "goto": true, "if": true, "in": true, "local": true, "nil": true,
	"not": true, "or": true, "repeat": true, "return": true, "then": true, "true": true, "until": true, "while": true,
}

// IsIdent reports whether s can be written as a Name.
func IsIdent(s string) bool {
	if s == "" || keywords[s] {
		return false
	}
	for i := 0; i < len(s); i++ {
		c := s[i]
		if !(c == '_' || c >= 'a' && c <= 'z' || c >= 'A' && c <= 'Z' || (i > 0 && c >= '0' && c <= '9')) {
			return false
		}
	}
	return true
}

type renderer struct {
	sb      strings.Builder
	line    int
	ch      Chooser
	lines   Lines
	pending []any // nodes of the simple statement being rendered
	atStart bool  // at start of a line (indentation not yet written)
	indent  int
	noSpace bool // suppress the separator before the next token
	inline  int  // >0: inside an inline (single-line) function body
}

// Render prints block as a chunk and returns the node positions.
func Render(block []Stmt, ch Chooser) (string, Lines) {
	r := &renderer{ch: ch, line: 1, lines: Lines{}, atStart: true}
	r.block(block)
	return r.sb.String(), r.lines
}

func (r *renderer) choose(n int) int {
	if r.ch == nil || n <= 1 {
		return 0
	}
	return r.ch.Choose(n)
}

func (r *renderer) raw(s string) {
	r.sb.WriteString(s)
	r.line += strings.Count(s, "\n")
}

func (r *renderer) newline() {
	if r.inline > 0 {
		r.noSpace = false
		return
	}
	if r.choose(12) == 1 {
		r.raw(" -- " + []string{"c", "end", "x = 1", "[[", "]]"}[r.choose(5)])
	}
	r.raw("\n")
	r.atStart = true
}

func (r *renderer) startLine() {
	if r.atStart {
		if r.inline == 0 {
			switch r.choose(4) {
			case 0, 1:
				r.raw(strings.Repeat("  ", r.indent))
			case 2:
				r.raw(strings.Repeat("\t", r.indent))
			}
		}
		r.atStart = false
		r.noSpace = true
	}
}

// tok writes one token, preceded by a separator (at least one blank).
func (r *renderer) tok(s string) {
	r.startLine()
	if !r.noSpace {
		switch r.choose(16) {
		case 1:
			r.raw("  ")
		case 2:
			r.raw("\t")
		case 3:
			r.raw(" --[[ c ]] ")
		case 4:
			r.raw(" --[==[ ]] ]==] ")
		default:
			r.raw(" ")
		}
	}
	r.noSpace = false
	r.raw(s)
}

// glue writes a token with no blank before or after it.
func (r *renderer) glue(s string) {
	r.startLine()
	r.noSpace = true
	r.tok(s)
	r.noSpace = true
}

// tight writes a token that needs no blank before it (')', ',') and randomly
// gets one.
func (r *renderer) tight(s string) {
	r.startLine()
	if r.choose(3) != 0 {
		r.noSpace = true
	}
	r.tok(s)
}

// open writes a token after which no blank is needed ('(', '{', '[').
func (r *renderer) open(s string, tightBefore bool) {
	if tightBefore {
		r.tight(s)
	} else {
		r.tok(s)
	}
	if r.choose(3) != 0 {
		r.noSpace = true
	}
}

func (r *renderer) note(n any) { r.pending = append(r.pending, n) }

// simple renders one simple statement (or control header) with f and records
// the positions of the nodes noted during it.
func (r *renderer) simple(node any, f func()) {
	saved := r.pending
	r.pending = []any{node}
	r.startLine()
	start := r.line
	f()
	end := r.line
	seen := map[any]bool{}
	for _, n := range r.pending {
		if seen[n] {
			continue
		}
		seen[n] = true
		if _, dup := r.lines[n]; dup {
			panic(fmt.Sprintf("mlua.Render: AST node %T %+v is shared between two statements (positions would be ambiguous)", n, n))
		}
		p := &Pos{From: start, To: end}
		if start == end {
			p.Known, p.Line = true, start
		}
		r.lines[n] = p
	}
	r.pending = saved
}

// ---------------------------------------------------------------- blocks

func (r *renderer) block(b []Stmt) {
	for _, s := range b {
		if r.inline == 0 {
			switch r.choose(14) {
			case 1:
				r.tok(";")
				r.newline()
			case 2:
				r.raw("\n")
				r.atStart = true
			case 3:
				r.tok("-- comment line")
				r.raw("\n")
				r.atStart = true
			case 4:
				r.tok("--[[ multi\nline ]]")
				r.newline()
			}
		}
		r.stmt(s)
	}
}

func (r *renderer) body(b []Stmt) {
	r.indent++
	r.newline()
	r.block(b)
	r.indent--
}

func (r *renderer) endStmt() {
	if r.choose(6) == 1 {
		r.tight(";")
	}
	r.newline()
}

func startsWithParen(e Expr) bool {
	for {
		switch x := e.(type) {
		case *Paren:
			return true
		case *Call:
			e = x.Fn
		case *MethCall:
			e = x.Obj
		case *Index:
			e = x.Obj
		case *Name:
			return false
		default:
			return true // literals etc. are wrapped in parentheses as prefix expressions
		}
	}
}

func (r *renderer) stmt(s Stmt) {
	switch x := s.(type) {
	case *Local:
		r.simple(x, func() {
			r.tok("local")
			for i, n := range x.Names {
				if i > 0 {
					r.tight(",")
				}
				r.tok(n)
				if i < len(x.Attribs) && x.Attribs[i] != "" {
					r.tok("<")
					r.tok(x.Attribs[i])
					r.tok(">")
				}
			}
			if len(x.Exprs) > 0 {
				r.tok("=")
				r.exprList(x.Exprs)
			}
		})
		r.endStmt()
	case *Assign:
		r.simple(x, func() {
			if startsWithParen(x.Targets[0]) {
				r.tok(";")
			}
			for i, t := range x.Targets {
				if i > 0 {
					r.tight(",")
				}
				r.expr1(t)
			}
			r.tok("=")
			r.exprList(x.Exprs)
		})
		r.endStmt()
	case *CallStmt:
		r.simple(x, func() {
			if startsWithParen(x.Call) {
				r.tok(";")
			}
			r.expr1(x.Call)
		})
		r.endStmt()
	case *Do:
		r.tok("do")
		r.body(x.Body)
		r.tok("end")
		r.endStmt()
	case *While:
		r.simple(x, func() {
			r.tok("while")
			r.expr(x.Cond, 0, false)
			r.tok("do")
		})
		r.body(x.Body)
		r.tok("end")
		r.endStmt()
	case *Repeat:
		r.tok("repeat")
		r.body(x.Body)
		r.simple(x, func() {
			r.tok("until")
			r.expr(x.Cond, 0, false)
		})
		r.endStmt()
	case *If:
		for i, c := range x.Conds {
			c := c
			r.simple(c, func() {
				if i == 0 {
					r.note(x)
					r.tok("if")
				} else {
					r.tok("elseif")
				}
				r.expr(c, 0, false)
				r.tok("then")
			})
			r.body(x.Blocks[i])
		}
		if x.HasElse {
			r.tok("else")
			r.body(x.Else)
		}
		r.tok("end")
		r.endStmt()
	case *NumFor:
		r.simple(x, func() {
			r.tok("for")
			r.tok(x.Var)
			r.tok("=")
			r.expr(x.Start, 0, false)
			r.tight(",")
			r.expr(x.Limit, 0, false)
			if x.Step != nil {
				r.tight(",")
				r.expr(x.Step, 0, false)
			}
			r.tok("do")
		})
		r.body(x.Body)
		r.tok("end")
		r.endStmt()
	case *GenFor:
		r.simple(x, func() {
			r.tok("for")
			for i, n := range x.Names {
				if i > 0 {
					r.tight(",")
				}
				r.tok(n)
			}
			r.tok("in")
			r.exprList(x.Exprs)
			r.tok("do")
		})
		r.body(x.Body)
		r.tok("end")
		r.endStmt()
	case *FuncStmt:
		r.simple(x, func() {
			r.tok("function")
			r.tok(x.Path[0])
			for _, p := range x.Path[1:] {
				r.glue(".")
				r.tok(p)
			}
			if x.Method != "" {
				r.glue(":")
				r.tok(x.Method)
			}
		})
		r.funcBody(x.F, false)
		r.endStmt()
	case *LocalFunc:
		r.simple(x, func() {
			r.tok("local")
			r.tok("function")
			r.tok(x.Name)
		})
		r.funcBody(x.F, false)
		r.endStmt()
	case *Return:
		r.simple(x, func() {
			r.tok("return")
			if len(x.Exprs) > 0 {
				r.exprList(x.Exprs)
			}
		})
		r.endStmt()
	case *Break:
		r.tok("break")
		r.endStmt()
	case *Goto:
		r.tok("goto")
		r.tok(x.Label)
		r.endStmt()
	case *Label:
		r.tok("::")
		if r.choose(2) == 0 {
			r.noSpace = true
		}
		r.tok(x.Name)
		if r.choose(2) == 0 {
			r.noSpace = true
		}
		r.tok("::")
		r.newline()
	default:
		panic(fmt.Sprintf("render: unknown statement %T", s))
	}
}

// funcBody renders "(params) body end". mayInline: the literal sits inside an
// expression and may be rendered on one line.
func (r *renderer) funcBody(f *Func, mayInline bool) {
	r.open("(", true)
	for i, p := range f.Params {
		if i > 0 {
			r.tight(",")
		}
		r.tok(p)
	}
	if f.IsVar {
		if len(f.Params) > 0 {
			r.tight(",")
		}
		r.tok("...")
	}
	r.tight(")")
	inline := r.inline > 0 || (mayInline && smallBody(f.Body) && r.choose(2) == 0)
	if inline {
		r.inline++
		saved := r.pending
		r.block(f.Body)
		r.pending = saved
		r.inline--
		r.tok("end")
		return
	}
	saved := r.pending
	r.body(f.Body)
	r.pending = saved
	r.tok("end")
}

func smallBody(b []Stmt) bool {
	if len(b) > 3 {
		return false
	}
	for _, s := range b {
		switch s.(type) {
		case *Local, *Assign, *CallStmt, *Return, *Break, *Goto:
		default:
			return false
		}
	}
	return true
}

// ---------------------------------------------------------------- expressions

const (
	precOr = iota + 1
	precAnd
	precCmp
	precBor
	precBxor
	precBand
	precShift
	precConcat
	precAdd
	precMul
	precUnary
	precPow
	precAtom
)

// BinPrec returns the precedence of a binary operator and whether it is
// right associative.
func BinPrec(op string) (int, bool) {
	switch op {
	case "or":
		return precOr, false
	case "and":
		return precAnd, false
	case "<", ">", "<=", ">=", "~=", "==":
		return precCmp, false
	case "|":
		return precBor, false
	case "~":
		return precBxor, false
	case "&":
		return precBand, false
	case "<<", ">>":
		return precShift, false
	case "..":
		return precConcat, true
	case "+", "-":
		return precAdd, false
	case "*", "/", "//", "%":
		return precMul, false
	case "^":
		return precPow, true
	}
	panic("unknown binary operator " + op)
}

func exprPrec(e Expr) int {
	switch x := e.(type) {
	case *Bin:
		p, _ := BinPrec(x.Op)
		return p
	case *Un:
		return precUnary
	case *Int:
		if x.V < 0 && x.V != math.MinInt64 {
			return precUnary
		}
	case *Float:
		if math.Signbit(x.V) && x.V == x.V {
			return precUnary
		}
	}
	return precAtom
}

func (r *renderer) exprList(es []Expr) {
	for i, e := range es {
		if i > 0 {
			r.tight(",")
		}
		r.expr(e, 0, i == len(es)-1)
	}
}

// expr renders e where an expression of precedence >= minPrec is required.
// multiPos: e is the last element of an expression list (parentheses would
// truncate a multi-valued expression there).
func (r *renderer) expr(e Expr, minPrec int, multiPos bool) {
	need := exprPrec(e) < minPrec
	redundant := false
	if !need && !(multiPos && IsMulti(e)) {
		if _, isParen := e.(*Paren); !isParen && r.choose(10) == 1 {
			redundant = true
		}
	}
	if need || redundant {
		r.open("(", false)
		r.expr1(e)
		r.tight(")")
		return
	}
	r.expr1(e)
}

// prefix renders e as a prefix expression (something that can be indexed or
// called).
func (r *renderer) prefix(e Expr) {
	switch e.(type) {
	case *Name, *Index, *Call, *MethCall, *Paren:
		r.expr1(e)
	default:
		r.open("(", false)
		r.expr1(e)
		r.tight(")")
	}
}

func (r *renderer) args(args []Expr) {
	if len(args) == 1 {
		switch a := args[0].(type) {
		case *Table:
			if r.choose(4) == 1 {
				r.expr1(a)
				return
			}
		case *Str:
			if r.choose(4) == 1 {
				r.str(a.V)
				return
			}
		}
	}
	r.open("(", true)
	r.exprList(args)
	r.tight(")")
}

func (r *renderer) expr1(e Expr) {
	switch x := e.(type) {
	case *Nil:
		r.tok("nil")
	case *True:
		r.tok("true")
	case *False:
		r.tok("false")
	case *Vararg:
		r.tok("...")
	case *Int:
		r.int(x.V)
	case *Float:
		r.float(x.V)
	case *Str:
		r.str(x.V)
	case *Name:
		r.tok(x.N)
	case *Paren:
		r.open("(", false)
		r.expr(x.X, 0, false)
		r.tight(")")
	case *Index:
		r.note(x)
		r.prefix(x.Obj)
		if k, ok := x.Key.(*Str); ok && IsIdent(k.V) && r.choose(4) != 1 {
			r.glue(".")
			r.tok(k.V)
			return
		}
		r.open("[", true)
		// avoid "[[" being read as a long bracket
		r.noSpace = false
		r.expr(x.Key, 0, false)
		r.noSpace = false
		r.tok("]")
	case *Call:
		r.note(x)
		r.prefix(x.Fn)
		r.args(x.Args)
	case *MethCall:
		r.note(x)
		r.prefix(x.Obj)
		r.glue(":")
		r.tok(x.Name)
		r.args(x.Args)
	case *Func:
		r.tok("function")
		r.funcBody(x, true)
	case *Bin:
		r.note(x)
		p, right := BinPrec(x.Op)
		lp, rp := p, p+1
		if right {
			lp, rp = p+1, p
		}
		r.expr(x.L, lp, false)
		r.tok(x.Op)
		r.expr(x.R, rp, false)
	case *Un:
		r.note(x)
		r.tok(x.Op)
		// "- -x" and "~ ~x" need the blank that tok always writes; "not" too.
		r.expr(x.X, precUnary, false)
	case *Table:
		r.open("{", false)
		for i, it := range x.Items {
			if i > 0 {
				if r.choose(4) == 1 {
					r.tight(";")
				} else {
					r.tight(",")
				}
			}
			switch {
			case it.NameKey != "":
				r.tok(it.NameKey)
				r.tok("=")
				r.expr(it.Val, 0, false)
			case it.Key != nil:
				r.tok("[")
				r.expr(it.Key, 0, false)
				r.tok("]")
				r.tok("=")
				r.expr(it.Val, 0, false)
			default:
				r.expr(it.Val, 0, i == len(x.Items)-1)
			}
		}
		if len(x.Items) > 0 && r.choose(6) == 1 {
			r.tight(",")
		}
		r.tight("}")
	default:
		panic(fmt.Sprintf("render: unknown expression %T", e))
	}
}

func (r *renderer) int(v int64) {
	if v == math.MinInt64 {
		switch r.choose(3) {
		case 0:
			r.tok("math.mininteger")
		case 1:
			r.tok("0x8000000000000000")
		default:
			r.tok("(-9223372036854775807 - 1)")
		}
		return
	}
	if v < 0 {
		r.tok("-")
		if r.choose(2) == 0 {
			r.noSpace = true
		}
		v = -v
	}
	switch r.choose(5) {
	case 1:
		r.tok("0x" + strconv.FormatInt(v, 16))
	case 2:
		r.tok("0X" + strings.ToUpper(strconv.FormatInt(v, 16)))
	default:
		r.tok(strconv.FormatInt(v, 10))
	}
}

func (r *renderer) float(f float64) {
	switch {
	case f != f:
		r.tok("(0/0)")
		return
	case math.IsInf(f, 1):
		r.tok([]string{"math.huge", "(1/0)", "1e999"}[r.choose(3)])
		return
	case math.IsInf(f, -1):
		r.tok([]string{"(-math.huge)", "(-1/0)", "(-1e999)"}[r.choose(3)])
		return
	}
	if math.Signbit(f) {
		r.tok("-")
		if r.choose(2) == 0 {
			r.noSpace = true
		}
		f = -f
	}
	if r.choose(4) == 1 && f != 0 {
		mant, exp := math.Frexp(f)
		m := uint64(mant * (1 << 53))
		e := exp - 53
		for m&1 == 0 && m != 0 {
			m >>= 1
			e++
		}
		r.tok(fmt.Sprintf("0x%xp%d", m, e))
		return
	}
	var s string
	switch r.choose(3) {
	case 1:
		s = strconv.FormatFloat(f, 'e', -1, 64)
	case 2:
		s = strconv.FormatFloat(f, 'g', 17, 64)
	default:
		s = strconv.FormatFloat(f, 'g', -1, 64)
	}
	if !strings.ContainsAny(s, ".eEn") {
		s += []string{".0", ".", "e0"}[r.choose(3)]
	}
	r.tok(s)
}

func printableASCII(s string) bool {
	for i := 0; i < len(s); i++ {
		if s[i] < 0x20 || s[i] >= 0x7f {
			return false
		}
	}
	return true
}

func (r *renderer) str(s string) {
	// long bracket form: only for strings without CR/LF (to stay on one line
	// and away from newline normalisation)
	if printableASCII(s) && r.choose(6) == 1 {
		level := 0
		for strings.Contains(s, "]"+strings.Repeat("=", level)+"]") || strings.HasSuffix(s, "]"+strings.Repeat("=", level)) {
			level++
		}
		eq := strings.Repeat("=", level)
		r.tok("[" + eq + "[" + s + "]" + eq + "]")
		return
	}
	q := byte('"')
	if r.choose(2) == 1 {
		q = '\''
	}
	var sb strings.Builder
	sb.WriteByte(q)
	for i := 0; i < len(s); i++ {
		c := s[i]
		nextDigit := i+1 < len(s) && s[i+1] >= '0' && s[i+1] <= '9'
		switch {
		case c == q || c == '\\':
			sb.WriteByte('\\')
			sb.WriteByte(c)
		case c == '\n':
			sb.WriteString([]string{"\\n", "\\010", "\\x0a", "\\n"}[r.choose(4)])
		case c == '\t' && r.choose(2) == 0:
			sb.WriteString("\\t")
		case c == '\r':
			sb.WriteString("\\r")
		case c == 0:
			if nextDigit {
				sb.WriteString("\\000")
			} else {
				sb.WriteString([]string{"\\0", "\\x00", "\\000"}[r.choose(3)])
			}
		case c < 32 || c == 127:
			switch r.choose(3) {
			case 0:
				fmt.Fprintf(&sb, "\\%03d", c)
			case 1:
				fmt.Fprintf(&sb, "\\x%02x", c)
			default:
				fmt.Fprintf(&sb, "\\u{%x}", c)
			}
		case c >= 128:
			if r.choose(2) == 0 {
				fmt.Fprintf(&sb, "\\%03d", c)
			} else {
				fmt.Fprintf(&sb, "\\x%02X", c)
			}
		default:
			switch r.choose(24) {
			case 1:
				fmt.Fprintf(&sb, "\\%03d", c)
			case 2:
				fmt.Fprintf(&sb, "\\x%02x", c)
			case 3:
				if c != ' ' {
					sb.WriteString("\\z   ")
				}
				sb.WriteByte(c)
			default:
				sb.WriteByte(c)
			}
		}
	}
	sb.WriteByte(q)
	r.tok(sb.String())
}
