package mlua

// CloneBlock deep-copies a block (statements, expressions and nested function
// bodies), so that a reducer can edit the copy in place.
func CloneBlock(b []Stmt) []Stmt {
	if b == nil {
		return nil
	}
	out := make([]Stmt, len(b))
	for i, s := range b {
		out[i] = CloneStmt(s)
	}
	return out
}

func cloneExprs(es []Expr) []Expr {
	if es == nil {
		return nil
	}
	out := make([]Expr, len(es))
	for i, e := range es {
		out[i] = CloneExpr(e)
	}
	return out
}

func cloneFunc(f *Func) *Func {
	return &Func{Params: append([]string{}, f.Params...), IsVar: f.IsVar, Body: CloneBlock(f.Body)}
}

func CloneExpr(e Expr) Expr {
	switch x := e.(type) {
	case nil:
		return nil
	case *Nil:
		return &Nil{}
	case *True:
		return &True{}
	case *False:
		return &False{}
	case *Vararg:
		return &Vararg{}
	case *Int:
		return &Int{V: x.V}
	case *Float:
		return &Float{V: x.V}
	case *Str:
		return &Str{V: x.V}
	case *Name:
		return &Name{N: x.N}
	case *Index:
		return &Index{Obj: CloneExpr(x.Obj), Key: CloneExpr(x.Key)}
	case *Call:
		return &Call{Fn: CloneExpr(x.Fn), Args: cloneExprs(x.Args)}
	case *MethCall:
		return &MethCall{Obj: CloneExpr(x.Obj), Name: x.Name, Args: cloneExprs(x.Args)}
	case *Func:
		c := cloneFunc(x)
		if funcHook != nil {
			return funcHook(x, c)
		}
		return c
	case *Bin:
		return &Bin{Op: x.Op, L: CloneExpr(x.L), R: CloneExpr(x.R)}
	case *Un:
		return &Un{Op: x.Op, X: CloneExpr(x.X)}
	case *Paren:
		return &Paren{X: CloneExpr(x.X)}
	case *Table:
		t := &Table{Items: make([]TItem, len(x.Items))}
		for i, it := range x.Items {
			t.Items[i] = TItem{Key: CloneExpr(it.Key), NameKey: it.NameKey, Val: CloneExpr(it.Val)}
		}
		return t
	}
	panic("mlua.CloneExpr: unknown node")
}

func CloneStmt(s Stmt) Stmt {
	switch x := s.(type) {
	case *Local:
		return &Local{Names: append([]string{}, x.Names...), Attribs: append([]string{}, x.Attribs...), Exprs: cloneExprs(x.Exprs)}
	case *Assign:
		return &Assign{Targets: cloneExprs(x.Targets), Exprs: cloneExprs(x.Exprs)}
	case *CallStmt:
		return &CallStmt{Call: CloneExpr(x.Call)}
	case *Do:
		return &Do{Body: CloneBlock(x.Body)}
	case *While:
		return &While{Cond: CloneExpr(x.Cond), Body: CloneBlock(x.Body)}
	case *Repeat:
		return &Repeat{Body: CloneBlock(x.Body), Cond: CloneExpr(x.Cond)}
	case *If:
		n := &If{Conds: cloneExprs(x.Conds), HasElse: x.HasElse, Else: CloneBlock(x.Else)}
		for _, b := range x.Blocks {
			n.Blocks = append(n.Blocks, CloneBlock(b))
		}
		return n
	case *NumFor:
		return &NumFor{Var: x.Var, Start: CloneExpr(x.Start), Limit: CloneExpr(x.Limit), Step: CloneExpr(x.Step), Body: CloneBlock(x.Body)}
	case *GenFor:
		return &GenFor{Names: append([]string{}, x.Names...), Exprs: cloneExprs(x.Exprs), Body: CloneBlock(x.Body)}
	case *FuncStmt:
		return &FuncStmt{Path: append([]string{}, x.Path...), Method: x.Method, F: cloneFunc(x.F)}
	case *LocalFunc:
		return &LocalFunc{Name: x.Name, F: cloneFunc(x.F)}
	case *Return:
		return &Return{Exprs: cloneExprs(x.Exprs)}
	case *Break:
		return &Break{}
	case *Goto:
		return &Goto{Label: x.Label}
	case *Label:
		return &Label{Name: x.Name}
	}
	panic("mlua.CloneStmt: unknown node")
}

// Blocks returns pointers to every statement list of the program rooted at
// root (the root list itself first), including bodies of function literals
// inside expressions.
func Blocks(root *[]Stmt) []*[]Stmt {
	var out []*[]Stmt
	var walkBlock func(b *[]Stmt)
	var walkExpr func(e Expr)
	walkExprs := func(es []Expr) {
		for _, e := range es {
			walkExpr(e)
		}
	}
	walkExpr = func(e Expr) {
		switch x := e.(type) {
		case *Index:
			walkExpr(x.Obj)
			walkExpr(x.Key)
		case *Call:
			walkExpr(x.Fn)
			walkExprs(x.Args)
		case *MethCall:
			walkExpr(x.Obj)
			walkExprs(x.Args)
		case *Func:
			walkBlock(&x.Body)
		case *Bin:
			walkExpr(x.L)
			walkExpr(x.R)
		case *Un:
			walkExpr(x.X)
		case *Paren:
			walkExpr(x.X)
		case *Table:
			for _, it := range x.Items {
				if it.Key != nil {
					walkExpr(it.Key)
				}
				walkExpr(it.Val)
			}
		}
	}
	walkBlock = func(b *[]Stmt) {
		out = append(out, b)
		for _, s := range *b {
			switch x := s.(type) {
			case *Local:
				walkExprs(x.Exprs)
			case *Assign:
				walkExprs(x.Targets)
				walkExprs(x.Exprs)
			case *CallStmt:
				walkExpr(x.Call)
			case *Do:
				walkBlock(&x.Body)
			case *While:
				walkExpr(x.Cond)
				walkBlock(&x.Body)
			case *Repeat:
				walkBlock(&x.Body)
				walkExpr(x.Cond)
			case *If:
				walkExprs(x.Conds)
				for i := range x.Blocks {
					walkBlock(&x.Blocks[i])
				}
				if x.HasElse {
					walkBlock(&x.Else)
				}
			case *NumFor:
				walkExpr(x.Start)
				walkExpr(x.Limit)
				if x.Step != nil {
					walkExpr(x.Step)
				}
				walkBlock(&x.Body)
			case *GenFor:
				walkExprs(x.Exprs)
				walkBlock(&x.Body)
			case *FuncStmt:
				walkBlock(&x.F.Body)
			case *LocalFunc:
				walkBlock(&x.F.Body)
			case *Return:
				walkExprs(x.Exprs)
			}
		}
	}
	walkBlock(root)
	return out
}

// Inner returns the nested statement lists of a compound statement that can
// replace it ("unwrapping"), or nil.
func Inner(s Stmt) [][]Stmt {
	switch x := s.(type) {
	case *Do:
		return [][]Stmt{x.Body}
	case *While:
		return [][]Stmt{x.Body}
	case *Repeat:
		return [][]Stmt{x.Body}
	case *If:
		out := append([][]Stmt{}, x.Blocks...)
		if x.HasElse {
			out = append(out, x.Else)
		}
		return out
	case *NumFor:
		return [][]Stmt{x.Body}
	case *GenFor:
		return [][]Stmt{x.Body}
	}
	return nil
}
