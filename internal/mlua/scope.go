package mlua

// funcHook, when set, is applied to every function-literal expression during
// cloning (see CloneBlockHook). Not safe for concurrent use.
var funcHook func(orig, clone *Func) Expr

// CloneBlockHook deep-copies b, replacing every function-literal expression
// by hook(original, clone).
func CloneBlockHook(b []Stmt, hook func(orig, clone *Func) Expr) []Stmt {
	funcHook = hook
	defer func() { funcHook = nil }()
	return CloneBlock(b)
}

// ClosedFuncs returns the function literals (expressions and function
// statements) of the program that do not refer to any local variable declared
// outside themselves: they only use their own locals, parameters and globals.
// Such functions survive string.dump/load unchanged.
func ClosedFuncs(block []Stmt) map[*Func]bool {
	type scope struct {
		names  map[string]bool
		parent *scope
		fn     *Func // non-nil: this scope is the top scope of fn
	}
	captures := map[*Func]bool{}
	all := []*Func{}
	var walkBlock func(b []Stmt, sc *scope)
	var walkExpr func(e Expr, sc *scope)
	resolve := func(name string, sc *scope) {
		var crossed []*Func
		for s := sc; s != nil; s = s.parent {
			if s.names[name] {
				for _, f := range crossed {
					captures[f] = true
				}
				return
			}
			if s.fn != nil {
				crossed = append(crossed, s.fn)
			}
		}
		// global: no capture (only _ENV)
	}
	walkFunc := func(f *Func, sc *scope, extraParams ...string) {
		all = append(all, f)
		fs := &scope{names: map[string]bool{}, parent: sc, fn: f}
		for _, p := range extraParams {
			fs.names[p] = true
		}
		for _, p := range f.Params {
			fs.names[p] = true
		}
		walkBlock(f.Body, fs)
	}
	walkExprs := func(es []Expr, sc *scope) {
		for _, e := range es {
			walkExpr(e, sc)
		}
	}
	walkExpr = func(e Expr, sc *scope) {
		switch x := e.(type) {
		case *Name:
			resolve(x.N, sc)
		case *Vararg:
			// `...` belongs to the enclosing vararg function: nothing to capture
		case *Index:
			walkExpr(x.Obj, sc)
			walkExpr(x.Key, sc)
		case *Call:
			walkExpr(x.Fn, sc)
			walkExprs(x.Args, sc)
		case *MethCall:
			walkExpr(x.Obj, sc)
			walkExprs(x.Args, sc)
		case *Func:
			walkFunc(x, sc)
		case *Bin:
			walkExpr(x.L, sc)
			walkExpr(x.R, sc)
		case *Un:
			walkExpr(x.X, sc)
		case *Paren:
			walkExpr(x.X, sc)
		case *Table:
			for _, it := range x.Items {
				if it.Key != nil {
					walkExpr(it.Key, sc)
				}
				walkExpr(it.Val, sc)
			}
		}
	}
	walkBlock = func(b []Stmt, parent *scope) {
		sc := &scope{names: map[string]bool{}, parent: parent}
		declare := func(n string) {
			// a new declaration shadows: start a fresh scope level so that
			// earlier references keep their meaning (they were resolved already)
			sc = &scope{names: map[string]bool{n: true}, parent: sc}
		}
		for _, s := range b {
			switch x := s.(type) {
			case *Local:
				walkExprs(x.Exprs, sc)
				for _, n := range x.Names {
					declare(n)
				}
			case *Assign:
				walkExprs(x.Targets, sc)
				walkExprs(x.Exprs, sc)
			case *CallStmt:
				walkExpr(x.Call, sc)
			case *Do:
				walkBlock(x.Body, sc)
			case *While:
				walkExpr(x.Cond, sc)
				walkBlock(x.Body, sc)
			case *Repeat:
				// the condition sees the body's locals: treat it as the last
				// statement of the body
				body := append(append([]Stmt{}, x.Body...), &CallStmt{Call: &Call{Fn: &Paren{X: x.Cond}}})
				walkBlock(body, sc)
			case *If:
				for i, c := range x.Conds {
					walkExpr(c, sc)
					walkBlock(x.Blocks[i], sc)
				}
				if x.HasElse {
					walkBlock(x.Else, sc)
				}
			case *NumFor:
				walkExpr(x.Start, sc)
				walkExpr(x.Limit, sc)
				if x.Step != nil {
					walkExpr(x.Step, sc)
				}
				walkBlock(x.Body, &scope{names: map[string]bool{x.Var: true}, parent: sc})
			case *GenFor:
				walkExprs(x.Exprs, sc)
				ns := map[string]bool{}
				for _, n := range x.Names {
					ns[n] = true
				}
				walkBlock(x.Body, &scope{names: ns, parent: sc})
			case *FuncStmt:
				resolve(x.Path[0], sc)
				if x.Method != "" {
					walkFunc(x.F, sc, "self")
				} else {
					walkFunc(x.F, sc)
				}
			case *LocalFunc:
				declare(x.Name)
				walkFunc(x.F, sc)
			case *Return:
				walkExprs(x.Exprs, sc)
			}
		}
	}
	walkBlock(block, nil)
	closed := map[*Func]bool{}
	for _, f := range all {
		if !captures[f] {
			closed[f] = true
		}
	}
	return closed
}
