// Package ev is the evidence recorder used by every property check.
//
// A check process ("shard") creates one Recorder, counts what it evaluated,
// registers non-trivial cases (hashed, so that the driver can merge shards and
// count DISTINCT cases), keeps a few samples, records violations (each with a
// replay file) and known-finding hits, and finally writes a partial file that
// cmd/vcheck merges into /verif/evidence/<ID>.json.
package ev

import (
	"encoding/binary"
	"encoding/json"
	"fmt"
	"hash/fnv"
	"os"
	"path/filepath"
	"sort"
	"strconv"
	"sync"
	"time"
)

// Violation is one violation found by a shard.
type Violation struct {
	Replay string `json:"replay"`
	Msg    string `json:"msg"`
}

// Partial is what a shard hands to the driver.
type Partial struct {
	Property    string            `json:"property"`
	Tier        string            `json:"tier"`
	Seed        uint64            `json:"seed"`
	Shard       int               `json:"shard"`
	Evaluations int64             `json:"evaluations"`
	HashFile    string            `json:"hash_file"`
	NHashes     int               `json:"n_hashes"`
	Classes     map[string]int64  `json:"classes"`
	Discards    map[string]int64  `json:"discards"`
	Samples     []json.RawMessage `json:"samples"`
	Violations  []Violation       `json:"violations"`
	Known       map[string]string `json:"known"` // finding id -> KNOWN-FINDING text
	Extra       map[string]any    `json:"extra"`
	Assumptions []string          `json:"assumptions"`
	Rule        string            `json:"rule"`
	Exhaustive  bool              `json:"exhaustive"`
	WallS       float64           `json:"wall_s"`
	Finished    bool              `json:"finished"`
}

// Recorder accumulates evidence for one property in one process.
type Recorder struct {
	mu      sync.Mutex
	p       Partial
	hashes  map[uint64]struct{}
	start   time.Time
	out     string
	maxSamp int
	sampleN int64
	Replay  string // non-empty: replay mode, path of the replay file
	nshards int
}

func envInt(name string, def int) int {
	if s := os.Getenv(name); s != "" {
		if n, err := strconv.Atoi(s); err == nil {
			return n
		}
	}
	return def
}

// VerifDir is the root of the verification tree.
func VerifDir() string {
	if d := os.Getenv("VERIF_DIR"); d != "" {
		return d
	}
	return "/verif"
}

// New creates the recorder for property id, configured from the environment
// set up by cmd/vcheck (VERIF_TIER, VERIF_SEED, VERIF_SHARD, VERIF_NSHARDS,
// VERIF_OUT, VERIF_REPLAY).
func New(id string) *Recorder {
	seed := uint64(1)
	if s := os.Getenv("VERIF_SEED"); s != "" {
		if n, err := strconv.ParseUint(s, 0, 64); err == nil {
			seed = n
		} else if n, err := strconv.ParseInt(s, 0, 64); err == nil {
			seed = uint64(n)
		}
	}
	if seed == 0 {
		seed = 0x5EED
	}
	tier := os.Getenv("VERIF_TIER")
	if tier != "thorough" {
		tier = "quick"
	}
	r := &Recorder{
		hashes:  map[uint64]struct{}{},
		start:   time.Now(),
		out:     os.Getenv("VERIF_OUT"),
		maxSamp: 8,
		Replay:  os.Getenv("VERIF_REPLAY"),
		nshards: envInt("VERIF_NSHARDS", 1),
	}
	r.p = Partial{
		Property: id, Tier: tier, Seed: seed, Shard: envInt("VERIF_SHARD", 0),
		Classes: map[string]int64{}, Discards: map[string]int64{},
		Known: map[string]string{}, Extra: map[string]any{},
	}
	return r
}

func (r *Recorder) ID() string     { return r.p.Property }
func (r *Recorder) Tier() string   { return r.p.Tier }
func (r *Recorder) Thorough() bool { return r.p.Tier == "thorough" }
func (r *Recorder) Shard() int     { return r.p.Shard }
func (r *Recorder) NShards() int {
	if r.nshards < 1 {
		return 1
	}
	return r.nshards
}

// BaseSeed is VERIF_SEED as given (0 remapped).
func (r *Recorder) BaseSeed() uint64 { return r.p.Seed }

// Seed is the per-shard random seed: a mix of VERIF_SEED, the shard index and
// a stream number (so that several rapid runs in one check differ). Never 0.
func (r *Recorder) Seed(stream int) uint64 {
	x := r.p.Seed*0x9E3779B97F4A7C15 + uint64(r.p.Shard+1)*0xBF58476D1CE4E5B9 + uint64(stream+1)*0x94D049BB133111EB
	x ^= x >> 31
	x *= 0xD6E8FEB86659FD93
	x ^= x >> 29
	x &= 0x7FFFFFFFFFFFFFFF
	if x == 0 {
		x = 1
	}
	return x
}

// Pick chooses by tier.
func (r *Recorder) Pick(quick, thorough int) int {
	if r.Thorough() {
		return thorough
	}
	return quick
}

// Mine reports whether item i of an enumeration belongs to this shard.
func (r *Recorder) Mine(i int) bool { return i%r.NShards() == r.p.Shard }

func (r *Recorder) Eval() {
	r.mu.Lock()
	r.p.Evaluations++
	r.mu.Unlock()
}

func (r *Recorder) EvalN(n int64) {
	r.mu.Lock()
	r.p.Evaluations += n
	r.mu.Unlock()
}

func Hash(key string) uint64 {
	h := fnv.New64a()
	h.Write([]byte(key))
	return h.Sum64()
}

// NonTrivial registers a case that is non-trivial by the property's rule.
// key must canonically identify the case (distinctness is by key).
func (r *Recorder) NonTrivial(key string) {
	h := Hash(key)
	r.mu.Lock()
	r.hashes[h] = struct{}{}
	r.mu.Unlock()
}

func (r *Recorder) Class(name string) {
	r.mu.Lock()
	r.p.Classes[name]++
	r.mu.Unlock()
}

func (r *Recorder) ClassN(name string, n int64) {
	r.mu.Lock()
	r.p.Classes[name] += n
	r.mu.Unlock()
}

func (r *Recorder) Discard(reason string) {
	r.mu.Lock()
	r.p.Discards[reason]++
	r.mu.Unlock()
}

// Sample keeps v as a sample if fewer than the maximum were kept; cases are
// offered sparsely (every 2^k-th offer once the buffer fills would bias to the
// start, so we keep the first few and then every offer whose index is a power
// of 4, replacing round-robin) to show early and late cases.
func (r *Recorder) Sample(v any) {
	r.mu.Lock()
	defer r.mu.Unlock()
	r.sampleN++
	n := r.sampleN
	keep := len(r.p.Samples) < r.maxSamp
	if !keep {
		// powers of 4
		m := n
		for m > 1 && m%4 == 0 {
			m /= 4
		}
		keep = m == 1
	}
	if !keep {
		return
	}
	b, err := json.Marshal(v)
	if err != nil {
		b, _ = json.Marshal(fmt.Sprint(v))
	}
	if len(b) > 6000 {
		b, _ = json.Marshal(string(b[:6000]) + "…(truncated)")
	}
	if len(r.p.Samples) < r.maxSamp {
		r.p.Samples = append(r.p.Samples, b)
	} else {
		r.p.Samples[int(n)%r.maxSamp] = b
	}
}

func (r *Recorder) Set(key string, v any) {
	r.mu.Lock()
	r.p.Extra[key] = v
	r.mu.Unlock()
}

func (r *Recorder) Rule(s string) { r.p.Rule = s }

func (r *Recorder) Exhaustive(b bool) { r.p.Exhaustive = b }

func (r *Recorder) Assume(s string) {
	r.mu.Lock()
	r.p.Assumptions = append(r.p.Assumptions, s)
	r.mu.Unlock()
}

// Known registers that the open known finding id was reproduced.
func (r *Recorder) Known(id, what string) {
	r.mu.Lock()
	r.p.Known[id] = what
	r.mu.Unlock()
}

// ReplayFile is the on-disk format of a replay.
type ReplayFile struct {
	Property string          `json:"property"`
	Kind     string          `json:"kind"`
	Case     json.RawMessage `json:"case"`
	Msg      string          `json:"msg,omitempty"`
}

// Violation records a violation, writes the replay file and returns its path.
func (r *Recorder) Violation(kind string, c any, msg string) string {
	b, err := json.MarshalIndent(c, "", " ")
	if err != nil {
		b, _ = json.Marshal(fmt.Sprint(c))
	}
	rf := ReplayFile{Property: r.p.Property, Kind: kind, Case: b, Msg: msg}
	out, _ := json.MarshalIndent(rf, "", " ")
	dir := filepath.Join(VerifDir(), "replays", r.p.Property)
	os.MkdirAll(dir, 0o755)
	name := fmt.Sprintf("%s-%016x.json", kind, Hash(string(b)))
	path := filepath.Join(dir, name)
	os.WriteFile(path, out, 0o644)
	r.mu.Lock()
	dup := false
	for _, v := range r.p.Violations {
		if v.Replay == path {
			dup = true
		}
	}
	if !dup && len(r.p.Violations) < 50 {
		r.p.Violations = append(r.p.Violations, Violation{Replay: path, Msg: msg})
	}
	r.mu.Unlock()
	return path
}

func (r *Recorder) NViolations() int {
	r.mu.Lock()
	defer r.mu.Unlock()
	return len(r.p.Violations)
}

// LoadReplay reads the replay file named by VERIF_REPLAY.
func (r *Recorder) LoadReplay() (*ReplayFile, error) {
	b, err := os.ReadFile(r.Replay)
	if err != nil {
		return nil, err
	}
	var rf ReplayFile
	if err := json.Unmarshal(b, &rf); err != nil {
		return nil, err
	}
	return &rf, nil
}

// Finish writes the partial file (and the hash file next to it).
func (r *Recorder) Finish() {
	r.mu.Lock()
	defer r.mu.Unlock()
	r.p.WallS = time.Since(r.start).Seconds()
	r.p.Finished = true
	if r.out == "" {
		// standalone run (developer): print a summary
		fmt.Printf("[ev] %s tier=%s evals=%d nontrivial=%d classes=%v discards=%v violations=%d known=%v\n",
			r.p.Property, r.p.Tier, r.p.Evaluations, len(r.hashes), r.p.Classes, r.p.Discards, len(r.p.Violations), r.p.Known)
		return
	}
	hs := make([]uint64, 0, len(r.hashes))
	for h := range r.hashes {
		hs = append(hs, h)
	}
	sort.Slice(hs, func(i, j int) bool { return hs[i] < hs[j] })
	buf := make([]byte, 8*len(hs))
	for i, h := range hs {
		binary.LittleEndian.PutUint64(buf[8*i:], h)
	}
	r.p.HashFile = r.out + ".hashes"
	r.p.NHashes = len(hs)
	os.WriteFile(r.p.HashFile, buf, 0o644)
	b, _ := json.Marshal(&r.p)
	os.WriteFile(r.out, b, 0o644)
}
