package ev

import (
	"encoding/json"
	"os"
	"path/filepath"
	"sync"
)

// Finding is one entry of /verif/known_findings.json (committed; never written
// at run time).
type Finding struct {
	Property string `json:"property"`
	ID       string `json:"id"`
	Status   string `json:"status"` // "open" or "fixed"
	Commit   string `json:"commit,omitempty"`
	What     string `json:"what"`
	Input    string `json:"input,omitempty"`
}

var (
	knownOnce sync.Once
	known     []Finding
)

// Findings returns all entries of the known-findings file.
func Findings() []Finding {
	knownOnce.Do(func() {
		files := []string{filepath.Join(VerifDir(), "known_findings.json")}
		more, _ := filepath.Glob(filepath.Join(VerifDir(), "known_findings.d", "*.json"))
		files = append(files, more...)
		for _, name := range files {
			b, err := os.ReadFile(name)
			if err != nil {
				continue
			}
			var f struct {
				Findings []Finding `json:"findings"`
			}
			if json.Unmarshal(b, &f) == nil {
				known = append(known, f.Findings...)
			}
		}
	})
	return known
}

// Open reports whether finding id is listed as an open (recorded, unrepaired)
// finding. Only then may a check exclude its input class and print
// KNOWN-FINDING instead of VIOLATION. A "fixed" entry suppresses nothing.
func Open(id string) bool {
	for _, f := range Findings() {
		if f.ID == id && f.Status == "open" {
			return true
		}
	}
	return false
}

// What returns the description of a finding.
func What(id string) string {
	for _, f := range Findings() {
		if f.ID == id {
			return f.What
		}
	}
	return id
}
