package progcheck

import (
	"encoding/json"
	"strings"
	"testing"

	"pgregory.net/rapid"

	"verif/internal/ev"
	"verif/internal/harness"
	"verif/internal/luagen"
	"verif/internal/luaref"
	"verif/internal/mlua"
	"verif/internal/pbt"
)

type RapidChooser struct{ T *rapid.T }

func (c RapidChooser) Choose(n int) int { return rapid.IntRange(0, n-1).Draw(c.T, "spelling") }

// Replay handles the replay branch shared by the program-level checks.
// It returns true when the test ran in replay mode.
func Replay(t *testing.T, rec *ev.Recorder, o harness.Opts) bool {
	if rec.Replay == "" {
		return false
	}
	rf, err := rec.LoadReplay()
	if err != nil {
		t.Fatal(err)
	}
	var c Case
	if err := json.Unmarshal(rf.Case, &c); err != nil {
		t.Fatal(err)
	}
	rec.Eval()
	if msg := Compare(c.Expected, RunGolua(c, o)); msg != "" {
		rec.Violation("program", c, msg)
	}
	return true
}

// RunGrid runs every enumerated program of this shard through model and
// golua. nontrivial decides from the model's result whether the case counts.
// Returns the number of violations recorded.
func RunGrid(rec *ev.Recorder, grid []luagen.GridCase, o harness.Opts, nontrivial func(gc luagen.GridCase, res luaref.Result) bool) int {
	nviol := 0
	for i, gc := range grid {
		if !rec.Mine(i) {
			continue
		}
		src, lines := mlua.Render(gc.Block, nil)
		res := Model(gc.Block, lines, nil)
		if res.Unspecified != "" {
			rec.Discard("unspecified: " + res.Unspecified)
			continue
		}
		if res.Budget || res.OrderSensitive {
			rec.Discard("reference-budget")
			continue
		}
		c := Case{Source: src, Expected: ExpectedOf(res), Note: gc.Name}
		tr := RunGolua(c, o)
		rec.Eval()
		if nontrivial(gc, res) {
			rec.NonTrivial(src)
		}
		rec.Sample(map[string]any{"case": gc.Name, "source": src, "events": len(res.Events), "error": res.Err})
		if msg := Compare(c.Expected, tr); msg != "" && nviol < 6 {
			nviol++
			red := Reduce(gc.Block, nil, o, 600)
			if m2, c2, def := Check(red, nil, o); def && m2 != "" {
				c2.Note = gc.Name
				rec.Violation("program", c2, m2+"\n--- grid case "+gc.Name+" (reduced) ---\n"+Numbered(c2.Source))
			} else {
				rec.Violation("program", c, msg+"\n--- grid case "+gc.Name+" ---\n"+Numbered(src))
			}
		}
	}
	return nviol
}

// ClassifyGen records which generator templates a program contains, and which
// of them ended up in a program the model could not decide (so that a
// template that is always discarded shows up in the evidence).
func ClassifyGen(rec *ev.Recorder, prog *luagen.Program, res luaref.Result) {
	undecided := res.Unspecified != "" || res.Budget || res.OrderSensitive
	for f := range prog.Feat {
		if undecided {
			rec.Class("gen-undecided:" + f)
		} else {
			rec.Class("gen:" + f)
		}
	}
}

// RunRandom runs rapid-generated programs of the given profile in several
// renderings. observe is called once per program with the model's result of
// the canonical rendering and returns whether the case is non-trivial.
func RunRandom(rec *ev.Recorder, name string, prof luagen.Profile, checks, renderings int, o harness.Opts, observe func(res luaref.Result) bool) bool {
	pbt.ShrinkTime = "1ms" // the structural reducer does the shrinking
	return pbt.RunRapid(rec, name, checks, 0, func(t *rapid.T) {
		prog := luagen.Generate(t, prof)
		specs := ArgSpecs(prog.Args)
		for k := 0; k < renderings; k++ {
			var ch mlua.Chooser
			if k > 0 {
				ch = RapidChooser{t}
			}
			src, lines := mlua.Render(prog.Block, ch)
			res := Model(prog.Block, lines, specs)
			if k == 0 {
				ClassifyGen(rec, prog, res)
			}
			switch {
			case res.Unspecified != "":
				rec.Discard("unspecified: " + res.Unspecified)
				return
			case res.Budget:
				rec.Discard("reference-budget")
				return
			case res.OrderSensitive:
				rec.Discard("unspecified: next() order observed")
				return
			}
			c := Case{Source: src, Args: specs, Expected: ExpectedOf(res)}
			tr := RunGolua(c, o)
			rec.Eval()
			if k == 0 {
				if observe(res) {
					rec.NonTrivial(src + "\x00" + strings.Join(specs, "\x00"))
				}
				rec.Sample(map[string]any{"source": src, "args": specs, "events": len(res.Events)})
			}
			if msg := Compare(c.Expected, tr); msg != "" {
				red := Reduce(prog.Block, specs, o, 1500)
				if m2, c2, def := Check(red, specs, o); def && m2 != "" {
					pbt.FailCase(t, "program", c2, "%s\n--- program (reduced, canonical rendering) ---\n%s--- args: %v", m2, Numbered(c2.Source), specs)
				}
				pbt.FailCase(t, "program", c, "%s\n--- program (rendering %d) ---\n%s--- args: %v", msg, k, Numbered(src), specs)
			}
		}
	})
}
