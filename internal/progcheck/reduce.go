package progcheck

import (
	"time"

	"strings"

	"verif/internal/harness"
	"verif/internal/mlua"
)

// Check renders block canonically, runs model and golua and returns the
// mismatch message ("" when they agree or when the model does not determine
// the behaviour), together with the replayable case.
func Check(block []mlua.Stmt, specs []string, o harness.Opts) (msg string, c Case, definite bool) {
	defer func() {
		if p := recover(); p != nil {
			// an edit produced a program outside the model's domain (e.g. break outside a loop)
			msg, definite = "", false
		}
	}()
	src, lines := mlua.Render(block, nil)
	res := Model(block, lines, specs)
	if res.Unspecified != "" || res.Budget || res.OrderSensitive {
		return "", Case{}, false
	}
	c = Case{Source: src, Args: specs, Expected: ExpectedOf(res)}
	tr := RunGolua(c, o)
	return Compare(c.Expected, tr), c, true
}

func category(msg string) string {
	for _, p := range []string{"event ", "number of events", "golua raised", "the program should end", "error value differs", "returned values", "Go panic", "valid program rejected", "program did not finish"} {
		if strings.HasPrefix(msg, p) {
			return p
		}
	}
	return "other"
}

// Reduce shrinks a failing program by deleting statements and unwrapping
// compound statements while the same kind of mismatch persists. It returns
// the reduced block (a deep copy; the input is not modified).
func Reduce(block []mlua.Stmt, specs []string, o harness.Opts, maxTests int) []mlua.Stmt {
	cur := mlua.CloneBlock(block)
	msg, _, _ := Check(cur, specs, o)
	if msg == "" {
		return cur
	}
	cat := category(msg)
	tests := 0
	// the reducer only serves the reader of a replay: give it a wall-clock
	// budget too (a reduced program that loops costs a full CPU safety net per
	// trial); when it is used up the current, less reduced, program is kept
	deadline := time.Now().Add(90 * time.Second)
	stillFails := func() bool {
		if time.Now().After(deadline) {
			tests = maxTests
			return false
		}
		tests++
		m, _, def := Check(cur, specs, o)
		return def && m != "" && category(m) == cat
	}
	for changed := true; changed && tests < maxTests; {
		changed = false
		for _, bp := range mlua.Blocks(&cur) {
			// delete statements, last first
			for i := len(*bp) - 1; i >= 0 && tests < maxTests; i-- {
				if i >= len(*bp) {
					continue
				}
				old := *bp
				nb := append(append([]mlua.Stmt{}, old[:i]...), old[i+1:]...)
				*bp = nb
				if stillFails() {
					changed = true
					continue
				}
				*bp = old
				// unwrap a compound statement
				for _, inner := range mlua.Inner(old[i]) {
					nb := append(append(append([]mlua.Stmt{}, old[:i]...), inner...), old[i+1:]...)
					*bp = nb
					if stillFails() {
						changed = true
						break
					}
					*bp = old
				}
			}
			if changed {
				break // block pointers are stale after an edit: recompute
			}
		}
	}
	return cur
}
