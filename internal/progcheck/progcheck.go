// Package progcheck compares what golua does on a rendered MiniLua program
// with what the reference interpreter prescribes.
package progcheck

import (
	"encoding/json"
	"fmt"
	"os"
	"strings"

	rt "github.com/arnodel/golua/runtime"

	"verif/internal/ev"
	"verif/internal/harness"
	"verif/internal/luagen"
	"verif/internal/luaref"
	"verif/internal/mlua"
	"verif/internal/pbt"
)

const Chunk = "chunk"

// Expected is the model's observation (canonical tokens; "E|…" tokens are
// partially determined strings, see luaref.MatchToken).
type Expected struct {
	Events [][]string `json:"events"`
	Rets   []string   `json:"rets"`
	Err    string     `json:"err,omitempty"`
}

// Case is a replayable program case.
type Case struct {
	Source   string   `json:"source"`
	Args     []string `json:"args"` // pbt.Opnd specs; "tbl:1,2,3" for a table argument
	Expected Expected `json:"expected"`
	Note     string   `json:"note,omitempty"`
}

// ArgSpecs converts generated arguments to serialisable specs.
func ArgSpecs(args []luagen.Arg) []string {
	out := make([]string, len(args))
	for i, a := range args {
		switch x := a.(type) {
		case int64:
			out[i] = string(pbt.OInt(x))
		case float64:
			out[i] = string(pbt.OFloat(x))
		case string:
			out[i] = string(pbt.OStr(x))
		case bool:
			if x {
				out[i] = string(pbt.OTrue)
			} else {
				out[i] = string(pbt.OFalse)
			}
		case nil:
			out[i] = string(pbt.ONil)
		case luagen.ArgTable:
			parts := make([]string, len(x.Items))
			for j, it := range x.Items {
				parts[j] = fmt.Sprint(it)
			}
			out[i] = "tbl:" + strings.Join(parts, ",")
		}
	}
	return out
}

func parseTbl(spec string) []int64 {
	var items []int64
	body := strings.TrimPrefix(spec, "tbl:")
	if body == "" {
		return nil
	}
	for _, p := range strings.Split(body, ",") {
		var n int64
		fmt.Sscan(p, &n)
		items = append(items, n)
	}
	return items
}

// ModelArgs builds the model-side argument values.
func ModelArgs(specs []string) []luaref.Value {
	out := make([]luaref.Value, len(specs))
	for i, s := range specs {
		if strings.HasPrefix(s, "tbl:") {
			t := luaref.NewTable()
			for j, it := range parseTbl(s) {
				t.Set(int64(j+1), it)
			}
			out[i] = t
			continue
		}
		o := pbt.Opnd(s)
		switch o.Kind() {
		case 'i':
			out[i] = o.Int()
		case 'f':
			out[i] = o.Float()
		case 's':
			out[i] = o.Str()
		case 'b':
			out[i] = o == pbt.OTrue
		default:
			out[i] = nil
		}
	}
	return out
}

// GoluaArgs builds the golua-side argument values.
func GoluaArgs(specs []string) func(r *rt.Runtime, c *harness.Canon) []rt.Value {
	return func(r *rt.Runtime, c *harness.Canon) []rt.Value {
		out := make([]rt.Value, len(specs))
		for i, s := range specs {
			if strings.HasPrefix(s, "tbl:") {
				t := rt.NewTable()
				for j, it := range parseTbl(s) {
					r.SetTable(t, rt.IntValue(int64(j+1)), rt.IntValue(it))
				}
				out[i] = rt.TableValue(t)
				continue
			}
			out[i] = pbt.Opnd(s).Value()
		}
		return out
	}
}

// Model runs the reference interpreter on one rendering.
func Model(block []mlua.Stmt, lines mlua.Lines, specs []string) luaref.Result {
	in := luaref.New(lines, Chunk)
	return in.Run(block, ModelArgs(specs))
}

// YieldsInsideProtectedCall: does the program make a coroutine yield while a
// pcall/xpcall/callcontext of that coroutine is active? Decided by running the
// reference interpreter; if the model cannot run the program to its end the
// program text decides (over-approximation). Input class of the open finding
// C07-yield-leaves-context-pushed as the limit checks meet it.
func YieldsInsideProtectedCall(block []mlua.Stmt, lines mlua.Lines, specs []string, src string) bool {
	res := Model(block, lines, specs)
	if res.Feat["yield-inside-protected-call"] > 0 {
		return true
	}
	if res.Unspecified != "" || res.Budget {
		return strings.Contains(src, "yield") && (strings.Contains(src, "pcall") || strings.Contains(src, "callcontext"))
	}
	return false
}

// ExpectedOf converts a model result.
func ExpectedOf(res luaref.Result) Expected {
	return Expected{Events: res.Events, Rets: res.Rets, Err: res.Err}
}

// MarkInflight records the case about to run in "<VERIF_OUT>.inflight", in the
// format of a replay file. A Go panic in one of golua's own goroutines (a
// coroutine) cannot be recovered by the test and kills the worker process; the
// driver then re-runs the recorded case in a fresh process and, if that dies
// in golua code again, reports it as a violation with this file as replay.
func MarkInflight(kind string, c any) {
	out := os.Getenv("VERIF_OUT")
	if out == "" || os.Getenv("VERIF_REPLAY") != "" {
		return
	}
	b, err := json.Marshal(c)
	if err != nil {
		return
	}
	rf, _ := json.Marshal(ev.ReplayFile{Property: os.Getenv("VERIF_PROPERTY"), Kind: kind, Case: b, Msg: "in flight when the worker process died"})
	os.WriteFile(out+".inflight", rf, 0o644)
}

// SkipInflight: the caller records its own (richer) case with MarkInflight.
var SkipInflight bool

// RunGolua runs the source text in a fresh golua runtime.
func RunGolua(c Case, o harness.Opts) *harness.Trace {
	if !SkipInflight {
		MarkInflight("program", c)
	}
	o.ChunkName = Chunk
	o.Args = GoluaArgs(c.Args)
	return harness.Run(c.Source, o)
}

func matchList(exp, got []string) int {
	n := len(exp)
	if len(got) < n {
		n = len(got)
	}
	for i := 0; i < n; i++ {
		if !luaref.MatchToken(exp[i], got[i], Chunk) {
			return i
		}
	}
	if len(exp) != len(got) {
		return n
	}
	return -1
}

// Compare returns "" when the golua trace is what the model prescribes.
func Compare(exp Expected, tr *harness.Trace) string {
	if tr.Panic != "" {
		return "Go panic escaped: " + tr.Panic
	}
	if tr.CompileErr != "" {
		return "valid program rejected by the compiler: " + tr.CompileErr
	}
	if tr.Killed {
		return "program did not finish within the safety-net CPU/memory limit (the model finished)"
	}
	n := len(exp.Events)
	if len(tr.EventList) < n {
		n = len(tr.EventList)
	}
	for i := 0; i < n; i++ {
		if j := matchList(exp.Events[i], tr.EventList[i]); j >= 0 {
			return fmt.Sprintf("event %d differs at value %d:\n   expected emit(%s)\n   golua    emit(%s)%s", i, j+1,
				strings.Join(exp.Events[i], ", "), strings.Join(tr.EventList[i], ", "), context(exp, tr, i))
		}
	}
	if len(exp.Events) != len(tr.EventList) {
		var next string
		if len(exp.Events) > n {
			next = "expected next: emit(" + strings.Join(exp.Events[n], ", ") + ")"
		} else {
			next = "golua's extra: emit(" + strings.Join(tr.EventList[n], ", ") + ")"
		}
		return fmt.Sprintf("number of events differs: expected %d, golua %d; %s; golua error=%q expected error=%q", len(exp.Events), len(tr.EventList), next, tr.ErrTok, exp.Err)
	}
	if exp.Err != "" || tr.ErrTok != "" {
		if exp.Err == "" {
			return "golua raised " + tr.ErrTok + " but the program should finish normally with return " + strings.Join(exp.Rets, ", ")
		}
		if tr.ErrTok == "" {
			return "the program should end with error " + exp.Err + " but golua returned " + tr.Rets
		}
		if !luaref.MatchToken(exp.Err, tr.ErrTok, Chunk) {
			return "error value differs: expected " + exp.Err + ", golua " + tr.ErrTok
		}
		return ""
	}
	if j := matchList(exp.Rets, tr.RetList); j >= 0 {
		return fmt.Sprintf("returned values differ at %d: expected (%s), golua (%s)", j+1, strings.Join(exp.Rets, ", "), strings.Join(tr.RetList, ", "))
	}
	return ""
}

func context(exp Expected, tr *harness.Trace, i int) string {
	if i == 0 {
		return ""
	}
	return "\n   (previous event: emit(" + strings.Join(exp.Events[i-1], ", ") + "))"
}

// Numbered returns the source with line numbers (for messages).
func Numbered(src string) string {
	var sb strings.Builder
	for i, l := range strings.Split(src, "\n") {
		fmt.Fprintf(&sb, "%3d| %s\n", i+1, l)
	}
	return sb.String()
}

// quirkDemos maps model quirks (see luaref.Quirks) to the known-finding id
// that enables them and to a fixed demonstration program with the expectation
// of the strict model.
var quirkDemos = []struct {
	Quirk, Finding, Source string
	Expected               Expected
}{
	{
		Quirk: "tbc-nonclosable-no-position", Finding: "C11-tbc-nonclosable-no-position",
		Source:   "local ok, e = pcall(function()\n local x <close> = 42\nend)\nemit(ok, e)\n",
		Expected: Expected{Events: [][]string{{"false", "E|2|*"}}},
	},
}

// ApplyKnownFindings enables the model quirks of findings that are listed as
// open, and reports each one that still reproduces as a KNOWN-FINDING.
func ApplyKnownFindings(rec *ev.Recorder) {
	for _, q := range quirkDemos {
		q := q
		if pbt.CheckKnown(rec, q.Finding, func() bool {
			return Compare(q.Expected, RunGolua(Case{Source: q.Source}, harness.Opts{})) != ""
		}) {
			luaref.Quirks[q.Quirk] = true
			rec.Assume("open finding " + q.Finding + ": the model accepts golua's behaviour for exactly that input class")
		}
	}
}
