package numref

// Model of the integer/float functions of the math library (manual §6.7) and
// of a few helpers used by the C02 check. Written from the manual; where the
// manual is silent (sign of a zero fractional part, which of two equal
// arguments math.max returns, NaN arguments of max/min, the type of modf's
// integral part) every defensible reading is returned.

import (
	"math"
	"math/big"
	"strconv"
)

// Floor is math.floor: integers are returned unchanged; a float is rounded
// toward minus infinity and returned as an integer if it fits, else as a float.
func Floor(a Num) Num {
	if a.IsInt {
		return a
	}
	return fit(math.Floor(a.F))
}

// Ceil is math.ceil.
func Ceil(a Num) Num {
	if a.IsInt {
		return a
	}
	return fit(math.Ceil(a.F))
}

func fit(f float64) Num {
	if i, ok := FloatToInt(f); ok {
		return Int(i)
	}
	return Float(f)
}

// Abs is math.abs ("the maximum value between x and -x", integer/float):
// -mininteger wraps to mininteger.
func Abs(a Num) Num {
	if a.IsInt {
		return Int(wrap(new(big.Int).Abs(a.big())))
	}
	return Float(math.Abs(a.F))
}

// Fmod is math.fmod: "the remainder of the division of x by y that rounds the
// quotient towards zero (integer/float)". Two integers give an integer (the
// truncated remainder, error for a zero divisor); otherwise both operands are
// converted to floats and C's fmod applies (Go's math.Mod has C's semantics).
func Fmod(a, b Num) (Num, error) {
	if a.IsInt && b.IsInt {
		if b.I == 0 {
			return Num{}, ErrModZero
		}
		r := new(big.Int).Rem(a.big(), b.big()) // truncated division (T-division)
		return Int(wrap(r)), nil
	}
	return Float(math.Mod(a.AsFloat(), b.AsFloat())), nil
}

// Modf returns the acceptable (integral part, fractional part) pairs of
// math.modf. The second result is always a float. The integral part is a
// float in the reference implementation and "an integer when the result fits"
// in §6.7's text: both are listed. A zero fractional part may have either
// sign.
func Modf(a Num) [][2]Num {
	if a.IsInt {
		return [][2]Num{
			{a, Float(0)}, {a, Float(math.Copysign(0, -1))},
			{Float(a.AsFloat()), Float(0)}, {Float(a.AsFloat()), Float(math.Copysign(0, -1))},
		}[:modfIntForms(a)]
	}
	x := a.F
	if x != x {
		return [][2]Num{{Float(x), Float(x)}}
	}
	var ip, fp float64
	if math.IsInf(x, 0) {
		ip, fp = x, 0
	} else {
		ip = math.Trunc(x)
		fp = x - ip // exact: same exponent range, no rounding
	}
	ips := []Num{Float(ip)}
	if ip == 0 {
		ips = []Num{Float(0), Float(math.Copysign(0, -1))}
	}
	if i, ok := FloatToInt(ip); ok {
		ips = append(ips, Int(i))
	}
	fps := []Num{Float(fp)}
	if fp == 0 {
		fps = []Num{Float(0), Float(math.Copysign(0, -1))}
	}
	var out [][2]Num
	for _, i := range ips {
		for _, f := range fps {
			out = append(out, [2]Num{i, f})
		}
	}
	return out
}

// an integer argument whose float conversion is not exact has only the
// integer forms.
func modfIntForms(a Num) int {
	if Eq(a, Float(a.AsFloat())) {
		return 4
	}
	return 2
}

// Ult is math.ult: unsigned comparison of two values convertible to integers.
func Ult(a, b Num) (bool, error) {
	x, ok1 := ToInteger(a)
	y, ok2 := ToInteger(b)
	if !ok1 || !ok2 {
		return false, ErrNoInt
	}
	ux := new(big.Int).Mod(big.NewInt(x), two64)
	uy := new(big.Int).Mod(big.NewInt(y), two64)
	return ux.Cmp(uy) < 0, nil
}

// MaxMin returns the acceptable results of math.max(a,b) (max=true) or
// math.min(a,b): "the argument with the maximum value, according to the Lua
// operator <". When the two compare equal, or one is NaN, either argument is
// acceptable.
func MaxMin(a, b Num, max bool) []Num {
	c, ok := Cmp(a, b)
	if !ok || c == 0 {
		if Same(a, b) {
			return []Num{a}
		}
		return []Num{a, b}
	}
	if (c > 0) == max {
		return []Num{a}
	}
	return []Num{b}
}

// MathType is math.type for numbers.
func MathType(a Num) string {
	if a.IsInt {
		return "integer"
	}
	return "float"
}

// IntToString is tostring of an integer.
func IntToString(i int64) string { return big.NewInt(i).String() }

// NaiveBin is the "everything is a double" computation used only to decide
// whether a case is non-trivial: float64(a) OP float64(b).
func NaiveBin(op string, a, b Num) (float64, bool) {
	x, y := naive(a), naive(b)
	switch op {
	case "+":
		return x + y, true
	case "-":
		return x - y, true
	case "*":
		return x * y, true
	case "/":
		return x / y, true
	case "//":
		return math.Floor(x / y), true
	case "%":
		return x - math.Floor(x/y)*y, true
	case "^":
		return math.Pow(x, y), true
	}
	return 0, false
}

func naive(a Num) float64 {
	if a.IsInt {
		return float64(a.I)
	}
	return a.F
}

// IsMinIntDecimal reports whether s (after trimming ASCII blanks) is a minus
// sign followed by a decimal integer of magnitude exactly 2^63 (leading zeros
// allowed): the reference implementation reads it as mininteger, the lexer
// rule ("a decimal integer that overflows is a float") as the float -2^63.
func IsMinIntDecimal(s string) bool {
	i, j := 0, len(s)
	for i < j && isSpace(s[i]) {
		i++
	}
	for j > i && isSpace(s[j-1]) {
		j--
	}
	s = s[i:j]
	if len(s) < 2 || s[0] != '-' {
		return false
	}
	for k := 1; k < len(s); k++ {
		if !isDigit(s[k]) {
			return false
		}
	}
	bi, ok := new(big.Int).SetString(s[1:], 10)
	return ok && bi.Cmp(two63) == 0
}

// FormatBits is used in messages.
func FormatBits(f float64) string { return strconv.FormatUint(math.Float64bits(f), 16) }
