// Package numref is an independent model of Lua 5.4 number semantics
// (manual §3.4.1–§3.4.4, §3.1 numerals, §3.3.5 numeric for), written with
// math/big so that it shares no code and no technique with golua's
// runtime/arith.go, comp.go, numconv.go and ast/number.go.
package numref

import (
	"errors"
	"math"
	"math/big"
	"strconv"
	"strings"
)

// Num is a Lua number: an int64 or a float64.
type Num struct {
	IsInt bool
	I     int64
	F     float64
}

func Int(i int64) Num     { return Num{IsInt: true, I: i} }
func Float(f float64) Num { return Num{F: f} }

func (n Num) String() string {
	if n.IsInt {
		return "int:" + strconv.FormatInt(n.I, 10)
	}
	if n.F != n.F {
		return "float:nan"
	}
	return "float:" + strconv.FormatFloat(n.F, 'g', -1, 64) + "/" + strconv.FormatUint(math.Float64bits(n.F), 16)
}

// Same reports bit-identity (all NaNs identical; +0 and -0 differ).
func Same(a, b Num) bool {
	if a.IsInt != b.IsInt {
		return false
	}
	if a.IsInt {
		return a.I == b.I
	}
	if a.F != a.F || b.F != b.F {
		return a.F != a.F && b.F != b.F
	}
	return math.Float64bits(a.F) == math.Float64bits(b.F)
}

func (n Num) big() *big.Int { return big.NewInt(n.I) }

// AsFloat converts like Lua's int->float conversion (round to nearest).
func (n Num) AsFloat() float64 {
	if n.IsInt {
		// big.Float conversion with 53 bits, nearest-even: independent from Go's int->float cast
		f, _ := new(big.Float).SetPrec(53).SetMode(big.ToNearestEven).SetInt(n.big()).Float64()
		return f
	}
	return n.F
}

var (
	two64  = new(big.Int).Lsh(big.NewInt(1), 64)
	two63  = new(big.Int).Lsh(big.NewInt(1), 63)
	maxInt = big.NewInt(math.MaxInt64)
	minInt = big.NewInt(math.MinInt64)
)

// wrap reduces x modulo 2^64 into the int64 range.
func wrap(x *big.Int) int64 {
	m := new(big.Int).Mod(x, two64) // 0 <= m < 2^64
	if m.Cmp(two63) >= 0 {
		m.Sub(m, two64)
	}
	return m.Int64()
}

var (
	ErrDivZero = errors.New("attempt to perform 'n//0'")
	ErrModZero = errors.New("attempt to perform 'n%%0'")
	ErrNoInt   = errors.New("number has no integer representation")
)

func Add(a, b Num) Num {
	if a.IsInt && b.IsInt {
		return Int(wrap(new(big.Int).Add(a.big(), b.big())))
	}
	return Float(a.AsFloat() + b.AsFloat())
}

func Sub(a, b Num) Num {
	if a.IsInt && b.IsInt {
		return Int(wrap(new(big.Int).Sub(a.big(), b.big())))
	}
	return Float(a.AsFloat() - b.AsFloat())
}

func Mul(a, b Num) Num {
	if a.IsInt && b.IsInt {
		return Int(wrap(new(big.Int).Mul(a.big(), b.big())))
	}
	return Float(a.AsFloat() * b.AsFloat())
}

func Div(a, b Num) Num { return Float(a.AsFloat() / b.AsFloat()) }

func Unm(a Num) Num {
	if a.IsInt {
		return Int(wrap(new(big.Int).Neg(a.big())))
	}
	return Float(-a.F)
}

// bigFloorDiv returns floor(a/b) and a - floor(a/b)*b for b != 0.
func bigFloorDivMod(a, b *big.Int) (*big.Int, *big.Int) {
	q, r := new(big.Int).QuoRem(a, b, new(big.Int)) // truncated
	if r.Sign() != 0 && (r.Sign() < 0) != (b.Sign() < 0) {
		q.Sub(q, big.NewInt(1))
		r.Add(r, b)
	}
	return q, r
}

func IDiv(a, b Num) (Num, error) {
	if a.IsInt && b.IsInt {
		if b.I == 0 {
			return Num{}, ErrDivZero
		}
		q, _ := bigFloorDivMod(a.big(), b.big())
		return Int(wrap(q)), nil
	}
	return Float(math.Floor(a.AsFloat() / b.AsFloat())), nil
}

// Mod returns the acceptable results of a % b (usually one). For floats with
// an infinite divisor the manual's formula a - floor(a/b)*b and the reference
// implementation (fmod with sign correction) differ; both are accepted.
func Mod(a, b Num) ([]Num, error) {
	if a.IsInt && b.IsInt {
		if b.I == 0 {
			return nil, ErrModZero
		}
		_, r := bigFloorDivMod(a.big(), b.big())
		return []Num{Int(wrap(r))}, nil
	}
	x, y := a.AsFloat(), b.AsFloat()
	m := math.Mod(x, y)
	if m != 0 && (m < 0) != (y < 0) && m == m {
		m += y
	}
	res := []Num{Float(m)}
	if math.IsInf(y, 0) && !math.IsInf(x, 0) && x == x {
		alt := x - math.Floor(x/y)*y
		res = append(res, Float(alt))
	}
	return res, nil
}

// Pow returns the result computed by math.Pow and, when both operands are
// integral and the true result is exactly representable, the exact result.
func Pow(a, b Num) (approx float64, exact float64, hasExact bool) {
	x, y := a.AsFloat(), b.AsFloat()
	approx = math.Pow(x, y)
	if x == 0 && y == y {
		// ±0 ^ y is fully defined by IEEE 754 pow (sign kept for odd y); the
		// big-integer route below cannot carry a signed zero.
		return approx, approx, true
	}
	if x == math.Trunc(x) && y == math.Trunc(y) && y >= 0 && y <= 1100 && !math.IsInf(x, 0) && math.Abs(x) < 1e18 {
		xi, _ := new(big.Float).SetFloat64(x).Int(nil)
		p := new(big.Int).Exp(xi, big.NewInt(int64(y)), nil)
		f := new(big.Float).SetInt(p)
		if f.MinPrec() <= 53 {
			e, acc := f.Float64()
			if acc == big.Exact && !math.IsInf(e, 0) {
				return approx, e, true
			}
		}
	}
	return approx, 0, false
}

// FloatToInt converts a float with an exact integer value in range.
func FloatToInt(f float64) (int64, bool) {
	if f != f || math.IsInf(f, 0) {
		return 0, false
	}
	bf := new(big.Float).SetFloat64(f)
	if !bf.IsInt() {
		return 0, false
	}
	bi, _ := bf.Int(nil)
	if bi.Cmp(minInt) < 0 || bi.Cmp(maxInt) > 0 {
		return 0, false
	}
	return bi.Int64(), true
}

// ToInteger is the conversion used by bitwise operators and math.tointeger on
// numbers.
func ToInteger(a Num) (int64, bool) {
	if a.IsInt {
		return a.I, true
	}
	return FloatToInt(a.F)
}

func bit2(a, b Num, f func(x, y uint64) uint64) (Num, error) {
	x, ok1 := ToInteger(a)
	y, ok2 := ToInteger(b)
	if !ok1 || !ok2 {
		return Num{}, ErrNoInt
	}
	return Int(int64(f(uint64(x), uint64(y)))), nil
}

func Band(a, b Num) (Num, error) { return bit2(a, b, func(x, y uint64) uint64 { return x & y }) }
func Bor(a, b Num) (Num, error)  { return bit2(a, b, func(x, y uint64) uint64 { return x | y }) }
func Bxor(a, b Num) (Num, error) { return bit2(a, b, func(x, y uint64) uint64 { return x ^ y }) }

func shl(x uint64, n int64) uint64 {
	if n <= -64 || n >= 64 {
		return 0
	}
	if n >= 0 {
		return x << uint(n)
	}
	return x >> uint(-n)
}

func Shl(a, b Num) (Num, error) {
	x, ok1 := ToInteger(a)
	y, ok2 := ToInteger(b)
	if !ok1 || !ok2 {
		return Num{}, ErrNoInt
	}
	return Int(int64(shl(uint64(x), y))), nil
}

func Shr(a, b Num) (Num, error) {
	x, ok1 := ToInteger(a)
	y, ok2 := ToInteger(b)
	if !ok1 || !ok2 {
		return Num{}, ErrNoInt
	}
	if y == math.MinInt64 {
		return Int(0), nil // shift left by 2^63
	}
	return Int(int64(shl(uint64(x), -y))), nil
}

func Bnot(a Num) (Num, error) {
	x, ok := ToInteger(a)
	if !ok {
		return Num{}, ErrNoInt
	}
	return Int(^x), nil
}

// Cmp compares two numbers mathematically. ok is false if either is NaN.
func Cmp(a, b Num) (c int, ok bool) {
	if a.IsInt && b.IsInt {
		return a.big().Cmp(b.big()), true
	}
	if (!a.IsInt && a.F != a.F) || (!b.IsInt && b.F != b.F) {
		return 0, false
	}
	toBig := func(n Num) (*big.Float, int) { // value, infinity sign
		if n.IsInt {
			return new(big.Float).SetPrec(128).SetInt(n.big()), 0
		}
		if math.IsInf(n.F, 1) {
			return nil, 1
		}
		if math.IsInf(n.F, -1) {
			return nil, -1
		}
		return new(big.Float).SetPrec(128).SetFloat64(n.F), 0
	}
	x, xi := toBig(a)
	y, yi := toBig(b)
	if xi != 0 || yi != 0 {
		switch {
		case xi == yi:
			return 0, true
		case xi < yi:
			return -1, true
		default:
			return 1, true
		}
	}
	return x.Cmp(y), true
}

func Eq(a, b Num) bool { c, ok := Cmp(a, b); return ok && c == 0 }
func Lt(a, b Num) bool { c, ok := Cmp(a, b); return ok && c < 0 }
func Le(a, b Num) bool { c, ok := Cmp(a, b); return ok && c <= 0 }

// ---------------------------------------------------------------- numerals

func isSpace(c byte) bool {
	return c == ' ' || c == '\t' || c == '\n' || c == '\v' || c == '\f' || c == '\r'
}

func isDigit(c byte) bool { return c >= '0' && c <= '9' }
func isHex(c byte) bool {
	return isDigit(c) || (c >= 'a' && c <= 'f') || (c >= 'A' && c <= 'F')
}
func hexVal(c byte) int64 {
	switch {
	case isDigit(c):
		return int64(c - '0')
	case c >= 'a':
		return int64(c-'a') + 10
	default:
		return int64(c-'A') + 10
	}
}

// StringToNumber converts a string to a number following the rules of the Lua
// lexer plus optional surrounding white space and an optional sign
// (manual §3.4.3), as tonumber(s) and arithmetic coercion do.
func StringToNumber(s string) (Num, bool) {
	i, j := 0, len(s)
	for i < j && isSpace(s[i]) {
		i++
	}
	for j > i && isSpace(s[j-1]) {
		j--
	}
	s = s[i:j]
	if s == "" {
		return Num{}, false
	}
	neg := false
	if s[0] == '-' || s[0] == '+' {
		neg = s[0] == '-'
		s = s[1:]
	}
	n, ok := Numeral(s)
	if !ok {
		return Num{}, false
	}
	if neg {
		if n.IsInt {
			return Int(wrap(new(big.Int).Neg(n.big()))), true
		}
		return Float(-n.F), true
	}
	// note: "-9223372036854775808" -> unsigned part overflows int64; see Numeral's
	// handling: decimal 9223372036854775808 is a float there, but C Lua's l_str2int
	// accepts it with the sign. Handled by NumeralSigned below.
	return n, true
}

// StringToNumberC is StringToNumber with the reference implementation's
// special case: a decimal integer whose magnitude is exactly 2^63 with a
// minus sign is the integer mininteger (the manual does not say; both are
// accepted by callers that consult Alt).
func StringToNumberAlt(s string) (Num, bool) {
	t := strings.TrimFunc(s, func(r rune) bool { return r < 128 && isSpace(byte(r)) })
	if t == "-9223372036854775808" {
		return Int(math.MinInt64), true
	}
	return StringToNumber(s)
}

// Numeral decodes an unsigned numeral as the lexer does: decimal integers
// that do not fit int64 become floats, hexadecimal integers wrap modulo 2^64,
// floats are rounded once (to nearest even).
func Numeral(s string) (Num, bool) {
	if s == "" {
		return Num{}, false
	}
	if len(s) >= 2 && s[0] == '0' && (s[1] == 'x' || s[1] == 'X') {
		return hexNumeral(s[2:])
	}
	// decimal
	k := 0
	for k < len(s) && isDigit(s[k]) {
		k++
	}
	if k == len(s) {
		bi, _ := new(big.Int).SetString(s, 10)
		if bi.Cmp(maxInt) <= 0 {
			return Int(bi.Int64()), true
		}
		f, _ := new(big.Float).SetPrec(53).SetMode(big.ToNearestEven).SetInt(bi).Float64()
		return Float(f), true
	}
	// float syntax: digits [. digits] [e[+-]digits], at least one digit in mantissa
	p := 0
	nd := 0
	for p < len(s) && isDigit(s[p]) {
		p++
		nd++
	}
	if p < len(s) && s[p] == '.' {
		p++
		for p < len(s) && isDigit(s[p]) {
			p++
			nd++
		}
	}
	if nd == 0 {
		return Num{}, false
	}
	if p < len(s) && (s[p] == 'e' || s[p] == 'E') {
		p++
		if p < len(s) && (s[p] == '+' || s[p] == '-') {
			p++
		}
		ne := 0
		for p < len(s) && isDigit(s[p]) {
			p++
			ne++
		}
		if ne == 0 {
			return Num{}, false
		}
	}
	if p != len(s) {
		return Num{}, false
	}
	f, err := strconv.ParseFloat(s, 64)
	if err != nil {
		// range errors give ±Inf / 0, which is what strtod yields as well
		var ne *strconv.NumError
		if errors.As(err, &ne) && ne.Err == strconv.ErrRange {
			return Float(f), true
		}
		return Num{}, false
	}
	return Float(f), true
}

func hexNumeral(s string) (Num, bool) {
	// integer?
	k := 0
	for k < len(s) && isHex(s[k]) {
		k++
	}
	if k == len(s) {
		if k == 0 {
			return Num{}, false
		}
		bi, _ := new(big.Int).SetString(s, 16)
		return Int(wrap(bi)), true
	}
	// hex float: hexdigits [. hexdigits] [p[+-]digits]; at least one hex digit
	mant := new(big.Int)
	nd := 0
	exp := 0
	p := 0
	for p < len(s) && isHex(s[p]) {
		mant.Lsh(mant, 4)
		mant.Add(mant, big.NewInt(hexVal(s[p])))
		p++
		nd++
	}
	if p < len(s) && s[p] == '.' {
		p++
		for p < len(s) && isHex(s[p]) {
			mant.Lsh(mant, 4)
			mant.Add(mant, big.NewInt(hexVal(s[p])))
			exp -= 4
			p++
			nd++
		}
	}
	if nd == 0 {
		return Num{}, false
	}
	if p < len(s) && (s[p] == 'p' || s[p] == 'P') {
		p++
		eneg := false
		if p < len(s) && (s[p] == '+' || s[p] == '-') {
			eneg = s[p] == '-'
			p++
		}
		ne := 0
		e := 0
		for p < len(s) && isDigit(s[p]) {
			if e < 1000000 {
				e = e*10 + int(s[p]-'0')
			}
			p++
			ne++
		}
		if ne == 0 {
			return Num{}, false
		}
		if eneg {
			e = -e
		}
		exp += e
	}
	if p != len(s) {
		return Num{}, false
	}
	if mant.Sign() == 0 {
		return Float(0), true
	}
	// value = mant * 2^exp, rounded once to float64 (nearest even, with
	// gradual underflow). big.Float.Float64 does exactly that.
	if exp > 5000 {
		return Float(math.Inf(1)), true
	}
	if exp < -6000-4*nd {
		return Float(0), true
	}
	bf := new(big.Float).SetPrec(uint(mant.BitLen()) + 8).SetInt(mant)
	bf.SetMantExp(bf, exp)
	f, _ := bf.Float64()
	return Float(f), true
}

// ---------------------------------------------------------------- for loop

// ForResult is the model of `for v = e1, e2, e3`.
type ForResult struct {
	Err       bool  // the loop raises before the first iteration
	Values    []Num // first <= cap values of the control variable
	Truncated bool  // more than cap iterations
	// Ambiguous is set when the manual and the reference implementation may
	// differ (NaN operands, float accumulation vs multiplication); then Alt
	// lists other acceptable value sequences (Values is always acceptable).
	Alt [][]Num
}

// ForLoop models a numeric for with evaluated operands. isNum tells whether
// each operand is a number at all (non-numbers raise). Only proper numbers
// are handled here; string operands are the caller's concern.
func ForLoop(start, limit, step Num, cap int) ForResult {
	if start.IsInt && step.IsInt {
		if step.I == 0 {
			return ForResult{Err: true}
		}
		// clip the limit
		var lim *big.Int
		if limit.IsInt {
			lim = limit.big()
		} else {
			f := limit.F
			switch {
			case f != f:
				// manual: the progression "does not pass" a NaN limit is unspecified;
				// the reference implementation skips the loop for a positive step and
				// runs down to mininteger for a negative one. Zero iterations is
				// always acceptable; for a negative step so is the descending run.
				res := ForResult{}
				if step.I < 0 {
					alt := intProgression(start.big(), minInt, step.big(), cap)
					res.Alt = append(res.Alt, alt.Values)
				}
				return res
			case math.IsInf(f, 1):
				if step.I < 0 {
					return ForResult{}
				}
				lim = maxInt
			case math.IsInf(f, -1):
				if step.I > 0 {
					return ForResult{}
				}
				lim = minInt
			default:
				bf := new(big.Float).SetFloat64(f)
				bi, acc := bf.Int(nil) // truncates toward zero
				if step.I > 0 {        // floor
					if acc == big.Above { // truncated value is above the exact one (negative fraction)
						bi.Sub(bi, big.NewInt(1))
					}
				} else { // ceil
					if acc == big.Below {
						bi.Add(bi, big.NewInt(1))
					}
				}
				lim = bi
				if lim.Cmp(maxInt) > 0 {
					if step.I < 0 {
						return ForResult{}
					}
					lim = maxInt
				} else if lim.Cmp(minInt) < 0 {
					if step.I > 0 {
						return ForResult{}
					}
					lim = minInt
				}
			}
		}
		return intProgression(start.big(), lim, step.big(), cap)
	}
	// float loop
	a, l, s := start.AsFloat(), limit.AsFloat(), step.AsFloat()
	if s == 0 {
		return ForResult{Err: true}
	}
	if a != a || l != l || s != s {
		// unordered comparisons: zero iterations (manual: nothing "does not pass")
		// or the reference implementation's single iteration are both accepted;
		// what is required is termination.
		res := ForResult{}
		skip := false
		if 0 < s {
			skip = l < a
		} else {
			skip = a < l
		}
		if !skip {
			res.Alt = append(res.Alt, []Num{Float(a)})
		}
		return res
	}
	// Four readings are acceptable: the control variable is accumulated (the
	// reference implementation) or computed as a + k*s ("arithmetic
	// progression"); an integer limit is converted to a float ("the three
	// values are converted to floats") or compared exactly ("does not pass").
	passF := func(v float64) bool {
		if s > 0 {
			return v > l
		}
		return v < l
	}
	passX := func(v float64) bool {
		c, ok := Cmp(Float(v), limit)
		if !ok {
			return true
		}
		if s > 0 {
			return c > 0
		}
		return c < 0
	}
	gen := func(pass func(float64) bool, accumulate bool) ([]Num, bool) {
		var out []Num
		v := a
		for k := 0; ; k++ {
			if !accumulate {
				v = a + float64(k)*s
			}
			if v != v || pass(v) {
				return out, false
			}
			if len(out) >= cap {
				return out, true
			}
			out = append(out, Float(v))
			if accumulate {
				v += s
			}
		}
	}
	vals, trunc := gen(passF, true)
	res := ForResult{Values: vals, Truncated: trunc}
	seen := map[string]bool{key(vals, trunc): true}
	for _, variant := range []struct {
		pass func(float64) bool
		acc  bool
	}{{passF, false}, {passX, true}, {passX, false}} {
		v2, t2 := gen(variant.pass, variant.acc)
		if k := key(v2, t2); !seen[k] {
			seen[k] = true
			res.Alt = append(res.Alt, v2)
		}
	}
	return res
}

func key(vs []Num, trunc bool) string {
	var sb strings.Builder
	for _, v := range vs {
		sb.WriteString(v.String())
		sb.WriteByte(',')
	}
	if trunc {
		sb.WriteString("+")
	}
	return sb.String()
}

func intProgression(start, lim, step *big.Int, cap int) ForResult {
	res := ForResult{}
	v := new(big.Int).Set(start)
	for {
		if step.Sign() > 0 && v.Cmp(lim) > 0 {
			break
		}
		if step.Sign() < 0 && v.Cmp(lim) < 0 {
			break
		}
		if len(res.Values) >= cap {
			res.Truncated = true
			break
		}
		res.Values = append(res.Values, Int(v.Int64()))
		v.Add(v, step)
		// the progression is mathematical: leaving the int64 range ends the loop
		if v.Cmp(maxInt) > 0 || v.Cmp(minInt) < 0 {
			break
		}
	}
	return res
}
