package packref

import (
	"bytes"
	"testing"
)

// Hand-computed vectors (reference manual semantics; the values are those the
// reference implementation and ISO C printf produce) keeping the model honest.

var lp64 = Native{Short: 2, Int: 4, Long: 8, SizeT: 8, Float: 4, Double: 8, LuaInt: 8, LuaNum: 8, MaxAlign: 8, Little: true}

func TestEncodeVectors(t *testing.T) {
	ff := func(n int) []byte { return bytes.Repeat([]byte{0xff}, n) }
	cases := []struct {
		f    string
		vals []Val
		want []byte
	}{
		{"<i3", []Val{IntVal(-2)}, []byte{0xfe, 0xff, 0xff}},
		{">I2", []Val{IntVal(258)}, []byte{1, 2}},
		{"<!4 b i4", []Val{IntVal(1), IntVal(2)}, []byte{1, 0, 0, 0, 2, 0, 0, 0}},
		{"<!2 b i8", []Val{IntVal(1), IntVal(2)}, []byte{1, 0, 2, 0, 0, 0, 0, 0, 0, 0}},
		{"<i16", []Val{IntVal(-1)}, ff(16)},
		{"<I16", []Val{IntVal(-1)}, append(ff(8), make([]byte, 8)...)},
		{">I16", []Val{IntVal(-1)}, append(make([]byte, 8), ff(8)...)},
		{"<J", []Val{IntVal(-1)}, ff(8)},
		{">s2", []Val{StrVal([]byte("ab"))}, []byte{0, 2, 'a', 'b'}},
		{"z", []Val{StrVal([]byte("ab"))}, []byte{'a', 'b', 0}},
		{"c4", []Val{StrVal([]byte("ab"))}, []byte{'a', 'b', 0, 0}},
		{"<!4 b Xi4 b", []Val{IntVal(1), IntVal(2)}, []byte{1, 0, 0, 0, 2}},
		{"<b x h", []Val{IntVal(1), IntVal(2)}, []byte{1, 0, 2, 0}},
		{"!<b d", []Val{IntVal(1), FloatVal(1)}, []byte{1, 0, 0, 0, 0, 0, 0, 0, 0, 0, 0, 0, 0, 0, 0xf0, 0x3f}},
		{">f", []Val{FloatVal(1)}, []byte{0x3f, 0x80, 0, 0}},
		{"<i", []Val{IntVal(-2)}, []byte{0xfe, 0xff, 0xff, 0xff}},
		{"<!3 h b", []Val{IntVal(1), IntVal(2)}, []byte{1, 0, 2}}, // min(2,3)=2 is a power of two
	}
	for _, c := range cases {
		f, err := Parse(c.f, lp64)
		if err != nil {
			t.Fatalf("%q: %v", c.f, err)
		}
		got, _, err := f.Encode(c.vals)
		if err != nil || !bytes.Equal(got, c.want) {
			t.Errorf("%q: got %x (%v), want %x", c.f, got, err, c.want)
		}
		if !f.HasVar() {
			if n, err := f.Size(); err != nil || n != len(c.want) {
				t.Errorf("%q: size %d (%v), want %d", c.f, n, err, len(c.want))
			}
		}
		vals, next, err := f.Decode(c.want, 0)
		if err != nil || next != len(c.want) || len(vals) != len(c.vals) {
			t.Errorf("%q: decode: %v %d %v", c.f, vals, next, err)
		}
	}
}

func TestErrors(t *testing.T) {
	for _, f := range []string{"i0", "i17", "!17", "!0", "s0", "X", "bX", "c", "q", "Xq", "i99999999999999999999"} {
		if _, err := Parse(f, lp64); err == nil {
			t.Errorf("%q parsed", f)
		}
	}
	enc := func(f string, v Val) error {
		ff, err := Parse(f, lp64)
		if err != nil {
			t.Fatal(err)
		}
		_, _, err = ff.Encode([]Val{v})
		return err
	}
	for _, c := range []struct {
		f string
		v Val
	}{{"i1", IntVal(128)}, {"i1", IntVal(-129)}, {"I1", IntVal(256)}, {"I1", IntVal(-1)}, {"I7", IntVal(-1)}, {"i7", IntVal(1 << 55)},
		{"!4i3", IntVal(0)}, {"!4 i8 Xi3", IntVal(0)}, {"z", StrVal([]byte{'a', 0})}, {"c1", StrVal([]byte("ab"))}, {"s1", StrVal(make([]byte, 256))}, {"i4", FloatVal(1.5)}} {
		if enc(c.f, c.v) == nil {
			t.Errorf("%q %v encoded", c.f, c.v)
		}
	}
	for _, c := range []struct {
		f string
		v Val
	}{{"i1", IntVal(127)}, {"i1", IntVal(-128)}, {"I1", IntVal(255)}, {"I8", IntVal(-1)}, {"I9", IntVal(-1)}, {"i7", IntVal(1<<55 - 1)},
		{"!2i3", IntVal(0)}, {"i3", IntVal(0)}, {"s1", StrVal(make([]byte, 255))}, {"i4", FloatVal(3)}} {
		if err := enc(c.f, c.v); err != nil {
			t.Errorf("%q %v: %v", c.f, c.v, err)
		}
	}
	// decode: wide integers
	f, _ := Parse("<i9", lp64)
	if _, _, err := f.Decode([]byte{0, 0, 0, 0, 0, 0, 0, 0, 1}, 0); err != ErrNoFit {
		t.Errorf("i9 2^64: %v", err)
	}
	if v, _, err := f.Decode([]byte{0, 0, 0, 0, 0, 0, 0, 0x80, 0xff}, 0); err != nil || v[0].I != -1<<63 {
		t.Errorf("i9 minint: %v %v", v, err)
	}
	if _, _, err := f.Decode([]byte{0, 0, 0, 0, 0, 0, 0, 0, 0xff}, 0); err != ErrNoFit {
		t.Errorf("i9 -2^64: %v", err)
	}
	f, _ = Parse("<I9", lp64)
	if v, _, err := f.Decode([]byte{0xff, 0xff, 0xff, 0xff, 0xff, 0xff, 0xff, 0xff, 0}, 0); err != nil || v[0].I != -1 {
		t.Errorf("I9 2^64-1: %v %v", v, err)
	}
	if _, _, err := f.Decode([]byte{0, 0, 0, 0}, 0); err != ErrShort {
		t.Errorf("short: %v", err)
	}
}

func TestPrintf(t *testing.T) {
	sp := func(flags string, w, p int, conv byte) Spec {
		s := Spec{Width: w, Prec: p, Conv: conv, FlagOrder: flags}
		for _, c := range flags {
			switch c {
			case '-':
				s.Minus = true
			case '+':
				s.Plus = true
			case ' ':
				s.Space = true
			case '#':
				s.Sharp = true
			case '0':
				s.Zero = true
			}
		}
		return s
	}
	ints := []struct {
		s    Spec
		v    int64
		want string
		text string
	}{
		{sp("", 5, 3, 'd'), -7, " -007", "%5.3d"},
		{sp("-#", 8, 3, 'o'), 8, "010     ", "%-#8.3o"},
		{sp("#", -1, -1, 'x'), 0, "0", "%#x"},
		{sp("#", -1, 0, 'o'), 0, "0", "%#.0o"},
		{sp("#", -1, -1, 'o'), 0, "0", "%#o"},
		{sp("+", -1, 0, 'd'), 0, "+", "%+.0d"},
		{sp("", -1, 0, 'd'), 0, "", "%.0d"},
		{sp("0", 5, -1, 'd'), -42, "-0042", "%05d"},
		{sp("#0", 6, -1, 'x'), 255, "0x00ff", "%#06x"},
		{sp("", -1, -1, 'x'), -1, "ffffffffffffffff", "%x"},
		{sp("", 3, -1, 'c'), 65, "  A", "%3c"},
		{sp(" ", -1, -1, 'd'), 5, " 5", "% d"},
		{sp(" 0", 5, -1, 'd'), 5, " 0005", "% 05d"},
		{sp("-0", 5, -1, 'd'), 5, "5    ", "%-05d"},
		{sp("", -1, -1, 'u'), -1, "18446744073709551615", "%u"},
		{sp("", -1, -1, 'o'), -1, "1777777777777777777777", "%o"},
		{sp("#", -1, -1, 'X'), 255, "0XFF", "%#X"},
		{sp("0", 8, 3, 'd'), 5, "     005", "%08.3d"},
		{sp("", -1, -1, 'd'), -1 << 63, "-9223372036854775808", "%d"},
		{sp("#", -1, 4, 'x'), 255, "0x00ff", "%#.4x"},
		{sp("+", -1, -1, 'i'), 0, "+0", "%+i"},
	}
	for _, c := range ints {
		if got := c.s.FormatInt(c.v); got != c.want {
			t.Errorf("%s of %d: got %q want %q", c.text, c.v, got, c.want)
		}
		if c.s.Text() != c.text {
			t.Errorf("text %q want %q", c.s.Text(), c.text)
		}
		if !c.s.Defined() {
			t.Errorf("%s not defined", c.text)
		}
	}
	if got := sp("", 5, -1, 's').FormatStr("abc"); got != "  abc" {
		t.Errorf("%%5s: %q", got)
	}
	if got := sp("-", 5, 2, 's').FormatStr("abc"); got != "ab   " {
		t.Errorf("%%-5.2s: %q", got)
	}
	if got := sp("", 5, 1, 's').FormatStr("\xc3\xa9"); got != "    \xc3" {
		t.Errorf("%%5.1s: %q", got)
	}
	for _, s := range []Spec{sp("#", -1, -1, 'd'), sp("0", 5, -1, 's'), sp("", -1, 2, 'c'), sp("+", -1, -1, 'x'), sp(" ", -1, -1, 'u')} {
		if s.Defined() {
			t.Errorf("%s defined", s.Text())
		}
	}
}
