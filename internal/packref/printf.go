package packref

import (
	"fmt"
	"strconv"
	"strings"
)

// Spec is one conversion specification of ISO C's printf as string.format
// accepts it: %[flags][width][.precision]conv.
type Spec struct {
	Minus, Plus, Space, Sharp, Zero bool
	Width                           int // -1: absent
	Prec                            int // -1: absent; 0 with DotOnly: "."
	Conv                            byte
	FlagOrder                       string // the flags as spelled (any order)
}

// Text spells the specification.
func (s Spec) Text() string {
	var sb strings.Builder
	sb.WriteByte('%')
	if s.FlagOrder != "" {
		sb.WriteString(s.FlagOrder)
	} else {
		if s.Minus {
			sb.WriteByte('-')
		}
		if s.Plus {
			sb.WriteByte('+')
		}
		if s.Space {
			sb.WriteByte(' ')
		}
		if s.Sharp {
			sb.WriteByte('#')
		}
		if s.Zero {
			sb.WriteByte('0')
		}
	}
	if s.Width >= 0 {
		sb.WriteString(strconv.Itoa(s.Width))
	}
	if s.Prec >= 0 {
		sb.WriteByte('.')
		sb.WriteString(strconv.Itoa(s.Prec))
	}
	sb.WriteByte(s.Conv)
	return sb.String()
}

// Defined reports whether ISO C defines the behaviour of this combination of
// flags, precision and conversion (C17 7.21.6.1): '#' only with o x X (among
// the conversions modelled here), '0' only with d i o u x X, '+' and ' ' only
// with the signed conversions d i, a precision not with c, no flags but '-'
// with c and s.
func (s Spec) Defined() bool {
	switch s.Conv {
	case 'd', 'i':
		return !s.Sharp
	case 'u':
		return !s.Sharp && !s.Plus && !s.Space
	case 'o', 'x', 'X':
		return !s.Plus && !s.Space
	case 'c':
		return !s.Sharp && !s.Zero && !s.Plus && !s.Space && s.Prec < 0
	case 's':
		return !s.Sharp && !s.Zero && !s.Plus && !s.Space
	}
	return false
}

func (s Spec) pad(body string) string {
	if s.Width <= len(body) {
		return body
	}
	fill := strings.Repeat(" ", s.Width-len(body))
	if s.Minus {
		return body + fill
	}
	return fill + body
}

// FormatInt formats the Lua integer v under an integer conversion (d i u o x
// X) or c. The argument is a 64-bit integer (C Lua passes a long long).
func (s Spec) FormatInt(v int64) string {
	if s.Conv == 'c' {
		return s.pad(string([]byte{byte(v)}))
	}
	var sign, prefix, digits string
	switch s.Conv {
	case 'd', 'i':
		var mag uint64
		if v < 0 {
			sign = "-"
			mag = uint64(-(v + 1)) + 1
		} else {
			mag = uint64(v)
			if s.Plus {
				sign = "+"
			} else if s.Space {
				sign = " "
			}
		}
		digits = strconv.FormatUint(mag, 10)
	case 'u':
		digits = strconv.FormatUint(uint64(v), 10)
	case 'o':
		digits = strconv.FormatUint(uint64(v), 8)
	case 'x':
		digits = strconv.FormatUint(uint64(v), 16)
	case 'X':
		digits = strings.ToUpper(strconv.FormatUint(uint64(v), 16))
	default:
		panic(fmt.Sprintf("FormatInt: conversion %q", s.Conv))
	}
	// "The result of converting a zero value with a precision of zero is no characters."
	if s.Prec == 0 && v == 0 {
		digits = ""
	}
	if s.Prec > len(digits) {
		digits = strings.Repeat("0", s.Prec-len(digits)) + digits
	}
	if s.Sharp {
		switch s.Conv {
		case 'o':
			// "increases the precision, if and only if necessary, to force the
			// first digit of the result to be a zero"
			if !strings.HasPrefix(digits, "0") {
				digits = "0" + digits
			}
		case 'x':
			if v != 0 {
				prefix = "0x"
			}
		case 'X':
			if v != 0 {
				prefix = "0X"
			}
		}
	}
	// '0': leading zeros (following any indication of sign or base) pad to the
	// field width; ignored with '-' and, for integer conversions, with a precision.
	if s.Zero && !s.Minus && s.Prec < 0 {
		if n := s.Width - len(sign) - len(prefix) - len(digits); n > 0 {
			digits = strings.Repeat("0", n) + digits
		}
	}
	return s.pad(sign + prefix + digits)
}

// FormatStr formats the byte string v under %s: the precision is the maximum
// number of BYTES written, the width the minimum number of bytes.
func (s Spec) FormatStr(v string) string {
	if s.Prec >= 0 && s.Prec < len(v) {
		v = v[:s.Prec]
	}
	return s.pad(v)
}
