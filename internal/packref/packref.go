// Package packref is an independent model of the binary serialisation format
// of Lua 5.4's string.pack / string.unpack / string.packsize (reference manual
// §6.4.2): a format-string parser, a size/alignment calculator, a byte-exact
// encoder and a decoder. It shares no code with golua; integers of every width
// 1..16 go through math/big two's complement, floats through encoding/binary.
//
// Platform parameters ("native size", "native alignment", "native endianness")
// are not fixed by the manual; they are given by Native.
package packref

import (
	"encoding/binary"
	"errors"
	"fmt"
	"math"
	"math/big"
)

// Native holds the implementation-defined parameters of the format.
type Native struct {
	Short, Int, Long, SizeT int // sizes of h, i, l, T (and default s prefix)
	Float, Double           int // f, d
	LuaInt, LuaNum          int // j, n
	MaxAlign                int // what a bare "!" selects
	Little                  bool
}

// Kind of a parsed element.
type Kind byte

const (
	KInt     Kind = 'i' // signed integer of Size bytes
	KUint    Kind = 'u' // unsigned integer of Size bytes
	KFloat   Kind = 'f' // IEEE single
	KDouble  Kind = 'd' // IEEE double
	KStrLen  Kind = 's' // string preceded by a Size-byte unsigned length
	KStrZ    Kind = 'z' // zero terminated string
	KStrFix  Kind = 'c' // fixed string of Size bytes
	KPadByte Kind = 'x' // one byte of padding
	KAlign   Kind = 'X' // alignment only, according to Size
)

// Elem is one data-bearing or padding element of a parsed format, with the
// configuration (endianness, maximum alignment) in force at that point.
type Elem struct {
	Kind     Kind
	Size     int  // integer width / prefix width / fixed length / alignment source size
	Little   bool // byte order in force
	MaxAlign int  // maximum alignment in force
	Text     string
}

// Takes reports whether the element consumes a value in pack / produces one in unpack.
func (e Elem) Takes() bool { return e.Kind != KPadByte && e.Kind != KAlign }

// alignSize is the size the element's alignment follows (0: never aligned).
func (e Elem) alignSize() int {
	switch e.Kind {
	case KStrZ, KStrFix, KPadByte:
		return 0
	}
	return e.Size
}

var (
	ErrFormat   = errors.New("malformed format string")
	ErrAlign    = errors.New("format asks for alignment not power of 2")
	ErrOverflow = errors.New("value does not fit the option")
	ErrValue    = errors.New("value has the wrong type for the option")
	ErrShort    = errors.New("data string too short")
	ErrNoFit    = errors.New("value does not fit into a Lua integer")
	ErrVarSize  = errors.New("variable-size format in packsize")
)

// Format is a parsed format string.
type Format struct {
	Elems []Elem
	// Unclear is set when the format uses a construct on which the manual is
	// silent (X followed by an option that has no alignment of its own); such
	// formats have no defined expectation.
	Unclear bool
}

// Parse parses a format string. It returns ErrFormat for malformed formats
// (unknown option, size outside 1..16, missing size for c, X without a
// following option).
func Parse(f string, nat Native) (*Format, error) {
	p := &parser{f: f, nat: nat, little: nat.Little, maxAlign: 1}
	out := &Format{}
	for p.i < len(f) {
		start := p.i
		c := f[p.i]
		p.i++
		switch c {
		case '<':
			p.little = true
		case '>':
			p.little = false
		case '=':
			p.little = nat.Little
		case ' ':
		case '!':
			n, has, err := p.num()
			if err != nil {
				return nil, err
			}
			if !has {
				n = nat.MaxAlign
			} else if n < 1 || n > 16 {
				return nil, fmt.Errorf("%w: !%d", ErrFormat, n)
			}
			p.maxAlign = n
		case 'X':
			if p.i >= len(f) {
				return nil, fmt.Errorf("%w: X at end", ErrFormat)
			}
			s2 := p.i
			c2 := f[p.i]
			p.i++
			e, ok, err := p.option(c2)
			if err != nil {
				return nil, err
			}
			if !ok {
				// '<', '>', '=', '!', ' ', 'X' are format characters but not
				// options with an alignment; anything else is not an option at all
				switch c2 {
				case '<', '>', '=', ' ', 'X':
					out.Unclear = true
					p.i = s2 // re-read it as an ordinary character
					continue
				case '!':
					out.Unclear = true
					p.i = s2
					continue
				}
				return nil, fmt.Errorf("%w: invalid option %q after X", ErrFormat, c2)
			}
			if e.alignSize() == 0 {
				out.Unclear = true
			}
			out.Elems = append(out.Elems, Elem{Kind: KAlign, Size: e.alignSize(), Little: p.little, MaxAlign: p.maxAlign, Text: f[start:p.i]})
		default:
			e, ok, err := p.option(c)
			if err != nil {
				return nil, err
			}
			if !ok {
				return nil, fmt.Errorf("%w: invalid option %q", ErrFormat, c)
			}
			e.Text = f[start:p.i]
			out.Elems = append(out.Elems, e)
		}
	}
	return out, nil
}

type parser struct {
	f        string
	i        int
	nat      Native
	little   bool
	maxAlign int
}

// num reads an optional decimal numeral. Numerals too large for any size are
// malformed.
func (p *parser) num() (n int, has bool, err error) {
	for p.i < len(p.f) && p.f[p.i] >= '0' && p.f[p.i] <= '9' {
		has = true
		if n > (math.MaxInt32-9)/10 {
			// keep scanning digits, remember the overflow
			err = fmt.Errorf("%w: numeral too large", ErrFormat)
		} else {
			n = n*10 + int(p.f[p.i]-'0')
		}
		p.i++
	}
	return
}

func (p *parser) sized(def int, what string) (int, error) {
	n, has, err := p.num()
	if err != nil {
		return 0, err
	}
	if !has {
		return def, nil
	}
	if n < 1 || n > 16 {
		return 0, fmt.Errorf("%w: %s%d", ErrFormat, what, n)
	}
	return n, nil
}

// option parses the option whose letter c was just consumed. ok=false: c is
// not a value/padding option.
func (p *parser) option(c byte) (Elem, bool, error) {
	e := Elem{Little: p.little, MaxAlign: p.maxAlign}
	switch c {
	case 'b':
		e.Kind, e.Size = KInt, 1
	case 'B':
		e.Kind, e.Size = KUint, 1
	case 'h':
		e.Kind, e.Size = KInt, p.nat.Short
	case 'H':
		e.Kind, e.Size = KUint, p.nat.Short
	case 'l':
		e.Kind, e.Size = KInt, p.nat.Long
	case 'L':
		e.Kind, e.Size = KUint, p.nat.Long
	case 'j':
		e.Kind, e.Size = KInt, p.nat.LuaInt
	case 'J':
		e.Kind, e.Size = KUint, p.nat.LuaInt
	case 'T':
		e.Kind, e.Size = KUint, p.nat.SizeT
	case 'i', 'I', 's':
		def := p.nat.Int
		if c == 's' {
			def = p.nat.SizeT
		}
		n, err := p.sized(def, string(c))
		if err != nil {
			return e, false, err
		}
		e.Size = n
		switch c {
		case 'i':
			e.Kind = KInt
		case 'I':
			e.Kind = KUint
		default:
			e.Kind = KStrLen
		}
	case 'f':
		e.Kind, e.Size = KFloat, p.nat.Float
	case 'd':
		e.Kind, e.Size = KDouble, p.nat.Double
	case 'n':
		e.Kind, e.Size = KDouble, p.nat.LuaNum
	case 'c':
		n, has, err := p.num()
		if err != nil {
			return e, false, err
		}
		if !has {
			return e, false, fmt.Errorf("%w: missing size for c", ErrFormat)
		}
		e.Kind, e.Size = KStrFix, n
	case 'z':
		e.Kind = KStrZ
	case 'x':
		e.Kind, e.Size = KPadByte, 1
	default:
		return e, false, nil
	}
	return e, true, nil
}

func pow2(n int) bool { return n > 0 && n&(n-1) == 0 }

// Padding returns the number of padding bytes needed before e at offset off.
func (e Elem) Padding(off int) (int, error) {
	a := e.alignSize()
	if a <= 1 {
		return 0, nil
	}
	if a > e.MaxAlign {
		a = e.MaxAlign
	}
	if a <= 1 {
		return 0, nil
	}
	if !pow2(a) {
		return 0, ErrAlign
	}
	return (a - off%a) % a, nil
}

// NeedsAlignment reports whether any element of the format is subject to an
// alignment greater than one.
func (f *Format) NeedsAlignment() bool {
	for _, e := range f.Elems {
		a := e.alignSize()
		if a > e.MaxAlign {
			a = e.MaxAlign
		}
		if a > 1 {
			return true
		}
	}
	return false
}

// HasVar reports whether the format has a variable-size option (s or z).
func (f *Format) HasVar() bool {
	for _, e := range f.Elems {
		if e.Kind == KStrLen || e.Kind == KStrZ {
			return true
		}
	}
	return false
}

// Size is string.packsize: the size of a fixed-size format.
func (f *Format) Size() (int, error) {
	off := 0
	for _, e := range f.Elems {
		if e.Kind == KStrLen || e.Kind == KStrZ {
			return 0, ErrVarSize
		}
		pad, err := e.Padding(off)
		if err != nil {
			return 0, err
		}
		off += pad
		if e.Kind != KAlign {
			off += e.Size
		}
	}
	return off, nil
}

// Val is a value given to pack or produced by unpack. Strings are []byte so
// that a case survives JSON.
type Val struct {
	K byte   `json:"k"`           // 'i' integer, 'f' float (by bits), 's' string
	I int64  `json:"i,omitempty"` // integer
	F uint64 `json:"f,omitempty"` // float bit pattern
	S []byte `json:"s,omitempty"` // string
}

func IntVal(i int64) Val     { return Val{K: 'i', I: i} }
func FloatVal(f float64) Val { return Val{K: 'f', F: math.Float64bits(f)} }
func StrVal(s []byte) Val    { return Val{K: 's', S: append([]byte{}, s...)} }

func (v Val) Float() float64 { return math.Float64frombits(v.F) }

func (v Val) String() string {
	switch v.K {
	case 'i':
		return fmt.Sprintf("%d", v.I)
	case 'f':
		return fmt.Sprintf("%v(float %#x)", v.Float(), v.F)
	}
	return fmt.Sprintf("%q", string(v.S))
}

var one = big.NewInt(1)

// EncodeInt writes the size-byte two's complement (signed) or plain binary
// (unsigned; a Lua integer is then read as an unsigned 64-bit value)
// representation of v, or ErrOverflow if it does not fit.
func EncodeInt(v int64, size int, signed, little bool) ([]byte, error) {
	x := new(big.Int)
	mod := new(big.Int).Lsh(one, uint(8*size))
	if signed {
		x.SetInt64(v)
		half := new(big.Int).Lsh(one, uint(8*size-1))
		if x.Cmp(half) >= 0 || x.Cmp(new(big.Int).Neg(half)) < 0 {
			return nil, ErrOverflow
		}
		if x.Sign() < 0 {
			x.Add(x, mod)
		}
	} else {
		x.SetUint64(uint64(v))
		if x.Cmp(mod) >= 0 {
			return nil, ErrOverflow
		}
	}
	b := make([]byte, size)
	x.FillBytes(b) // big endian
	if little {
		reverse(b)
	}
	return b, nil
}

func reverse(b []byte) {
	for i, j := 0, len(b)-1; i < j; i, j = i+1, j-1 {
		b[i], b[j] = b[j], b[i]
	}
}

// DecodeInt reads a size-byte integer; ErrNoFit if the value is not a Lua
// integer (signed: outside int64; unsigned: outside uint64).
func DecodeInt(b []byte, signed, little bool) (int64, error) {
	bb := append([]byte{}, b...)
	if little {
		reverse(bb)
	}
	x := new(big.Int).SetBytes(bb)
	if signed {
		if len(bb) > 0 && bb[0]&0x80 != 0 {
			x.Sub(x, new(big.Int).Lsh(one, uint(8*len(bb))))
		}
		if !x.IsInt64() {
			return 0, ErrNoFit
		}
		return x.Int64(), nil
	}
	if !x.IsUint64() {
		return 0, ErrNoFit
	}
	return int64(x.Uint64()), nil
}

func order(little bool) binary.ByteOrder {
	if little {
		return binary.LittleEndian
	}
	return binary.BigEndian
}

// FloatOutcome says how the single-precision conversion of a value is defined.
type FloatOutcome int

const (
	FloatExact    FloatOutcome = iota // the result is determined
	FloatOverflow                     // finite value beyond the float range: the manual is silent
)

// Encode is string.pack. fill is the byte used for padding (zero in pack).
// The returned FloatOutcome is FloatOverflow if some 'f' item got a finite
// value whose magnitude exceeds the largest finite float32.
func (f *Format) Encode(vals []Val) ([]byte, FloatOutcome, error) {
	var out []byte
	fo := FloatExact
	vi := 0
	next := func() (Val, error) {
		if vi >= len(vals) {
			return Val{}, fmt.Errorf("%w: missing value", ErrValue)
		}
		vi++
		return vals[vi-1], nil
	}
	for _, e := range f.Elems {
		pad, err := e.Padding(len(out))
		if err != nil {
			return nil, fo, err
		}
		out = append(out, make([]byte, pad)...)
		switch e.Kind {
		case KAlign:
		case KPadByte:
			out = append(out, 0)
		case KInt, KUint:
			v, err := next()
			if err != nil {
				return nil, fo, err
			}
			var iv int64
			switch v.K {
			case 'i':
				iv = v.I
			case 'f':
				fv := v.Float()
				if fv != math.Trunc(fv) || fv < -0x1p63 || fv >= 0x1p63 {
					return nil, fo, ErrValue
				}
				iv = int64(fv)
			default:
				return nil, fo, ErrValue
			}
			b, err := EncodeInt(iv, e.Size, e.Kind == KInt, e.Little)
			if err != nil {
				return nil, fo, err
			}
			out = append(out, b...)
		case KFloat, KDouble:
			v, err := next()
			if err != nil {
				return nil, fo, err
			}
			var fv float64
			switch v.K {
			case 'i':
				fv = float64(v.I)
			case 'f':
				fv = v.Float()
			default:
				return nil, fo, ErrValue
			}
			if e.Kind == KFloat || e.Size == 4 {
				if !math.IsInf(fv, 0) && fv == fv && math.Abs(fv) > math.MaxFloat32 {
					fo = FloatOverflow
				}
				b := make([]byte, 4)
				order(e.Little).PutUint32(b, math.Float32bits(float32(fv)))
				out = append(out, b...)
			} else {
				b := make([]byte, 8)
				order(e.Little).PutUint64(b, math.Float64bits(fv))
				out = append(out, b...)
			}
		case KStrLen:
			v, err := next()
			if err != nil {
				return nil, fo, err
			}
			if v.K != 's' {
				return nil, fo, ErrValue
			}
			if e.Size < 8 && uint64(len(v.S)) >= uint64(1)<<(8*uint(e.Size)) {
				return nil, fo, ErrOverflow
			}
			b, err := EncodeInt(int64(len(v.S)), e.Size, false, e.Little)
			if err != nil {
				return nil, fo, err
			}
			out = append(out, b...)
			out = append(out, v.S...)
		case KStrZ:
			v, err := next()
			if err != nil {
				return nil, fo, err
			}
			if v.K != 's' {
				return nil, fo, ErrValue
			}
			for _, c := range v.S {
				if c == 0 {
					return nil, fo, ErrValue
				}
			}
			out = append(out, v.S...)
			out = append(out, 0)
		case KStrFix:
			v, err := next()
			if err != nil {
				return nil, fo, err
			}
			if v.K != 's' {
				return nil, fo, ErrValue
			}
			if len(v.S) > e.Size {
				return nil, fo, ErrOverflow
			}
			out = append(out, v.S...)
			out = append(out, make([]byte, e.Size-len(v.S))...)
		}
	}
	return out, fo, nil
}

// Decode is string.unpack starting at offset pos (0-based) of data: the
// values and the offset after the last read item.
func (f *Format) Decode(data []byte, pos int) ([]Val, int, error) {
	var vals []Val
	if pos < 0 || pos > len(data) {
		return nil, 0, ErrShort
	}
	take := func(n int) ([]byte, error) {
		if n < 0 || n > len(data)-pos {
			return nil, ErrShort
		}
		b := data[pos : pos+n]
		pos += n
		return b, nil
	}
	for _, e := range f.Elems {
		pad, err := e.Padding(pos)
		if err != nil {
			return nil, 0, err
		}
		// the padding and the item must both be inside the data
		if _, err := take(pad); err != nil {
			return nil, 0, err
		}
		switch e.Kind {
		case KAlign:
		case KPadByte:
			if _, err := take(1); err != nil {
				return nil, 0, err
			}
		case KInt, KUint:
			b, err := take(e.Size)
			if err != nil {
				return nil, 0, err
			}
			v, err := DecodeInt(b, e.Kind == KInt, e.Little)
			if err != nil {
				return nil, 0, err
			}
			vals = append(vals, IntVal(v))
		case KFloat, KDouble:
			b, err := take(e.Size)
			if err != nil {
				return nil, 0, err
			}
			if e.Size == 4 {
				vals = append(vals, FloatVal(float64(math.Float32frombits(order(e.Little).Uint32(b)))))
			} else {
				vals = append(vals, FloatVal(math.Float64frombits(order(e.Little).Uint64(b))))
			}
		case KStrLen:
			b, err := take(e.Size)
			if err != nil {
				return nil, 0, err
			}
			bb := append([]byte{}, b...)
			if e.Little {
				reverse(bb)
			}
			n := new(big.Int).SetBytes(bb)
			if !n.IsInt64() || n.Int64() > int64(len(data)-pos) {
				return nil, 0, ErrShort
			}
			s, _ := take(int(n.Int64()))
			vals = append(vals, StrVal(s))
		case KStrZ:
			end := pos
			for end < len(data) && data[end] != 0 {
				end++
			}
			if end >= len(data) {
				return nil, 0, ErrShort
			}
			vals = append(vals, StrVal(data[pos:end]))
			pos = end + 1
		case KStrFix:
			s, err := take(e.Size)
			if err != nil {
				return nil, 0, err
			}
			vals = append(vals, StrVal(s))
		}
	}
	return vals, pos, nil
}
