package exprgen

import (
	"fmt"
	"math"
	"math/big"
	"strconv"
	"strings"
)

// ------------------------------------------------------------------ numerals

// CanonFloat spells a finite non-negative float in the shortest decimal form
// that is a float numeral (has a radix point or an exponent).
func CanonFloat(f float64) string {
	if f != f || math.IsInf(f, 0) || math.Signbit(f) {
		panic("exprgen: float leaf must be finite and non-negative")
	}
	s := strconv.FormatFloat(f, 'g', -1, 64)
	if !strings.ContainsAny(s, ".e") {
		s += ".0"
	}
	return s
}

// HexFloat spells a finite non-negative float exactly as a hexadecimal float.
func HexFloat(f float64) string {
	if f == 0 {
		return "0x0p0"
	}
	mant, exp := math.Frexp(f)
	m := uint64(math.Ldexp(mant, 53))
	e := exp - 53
	for m&1 == 0 {
		m >>= 1
		e++
	}
	return fmt.Sprintf("0x%xp%d", m, e)
}

// IntSpelling draws a spelling of the non-negative integer v: decimal
// (possibly with leading zeros), hexadecimal in either case, hexadecimal with
// more than 16 digits (the value wraps modulo 2^64, so extra high digits do
// not matter).
func IntSpelling(v int64, ch Chooser) string {
	switch ch.Intn(8) {
	case 0:
		return strings.Repeat("0", 1+ch.Intn(3)) + strconv.FormatInt(v, 10)
	case 1:
		return fmt.Sprintf("0x%x", v)
	case 2:
		return fmt.Sprintf("0X%X", v)
	case 3:
		return fmt.Sprintf("0x%0*x", 1+ch.Intn(16), v)
	case 4:
		hi := []string{"1", "f", "A5", "dead", "100", "8"}[ch.Intn(6)]
		return fmt.Sprintf("0x%s%016x", hi, uint64(v))
	}
	return strconv.FormatInt(v, 10)
}

// FloatSpelling draws a spelling of the finite non-negative float f.
func FloatSpelling(f float64, ch Chooser) string {
	switch ch.Intn(9) {
	case 0:
		return HexFloat(f)
	case 1:
		s := strconv.FormatFloat(f, 'x', -1, 64) // 0x1.8p+00
		if ch.Intn(2) == 0 {
			s = strings.ToUpper(s)
		}
		return s
	case 2:
		return strconv.FormatFloat(f, 'e', -1, 64) // 1.5e+00
	case 3:
		return strings.ToUpper(strconv.FormatFloat(f, 'e', 17, 64))
	case 4:
		s := strconv.FormatFloat(f, 'f', -1, 64)
		if len(s) > 40 {
			break
		}
		if !strings.Contains(s, ".") {
			return s + "." // 2.
		}
		if strings.HasPrefix(s, "0.") {
			return s[1:] // .5
		}
		return s
	case 5:
		// scaled: d * 10^k spelled with an exponent (exactly representable scaling only)
		if f == math.Trunc(f) && f < 1e15 {
			return strconv.FormatFloat(f*10, 'f', 0, 64) + "e-1"
		}
	case 6:
		if f == math.Trunc(f) && f < 1e15 {
			return strconv.FormatFloat(f, 'f', 0, 64) + "e0"
		}
	}
	return CanonFloat(f)
}

// DecFloatRat is an independent reading of a decimal float numeral:
// digits[.digits][e[+-]digits] evaluated as an exact rational and rounded
// once to the nearest double (ties to even).
func DecFloatRat(s string) (float64, bool) {
	mant := s
	exp := 0
	if i := strings.IndexAny(s, "eE"); i >= 0 {
		mant = s[:i]
		e, err := strconv.Atoi(s[i+1:])
		if err != nil {
			return 0, false
		}
		exp = e
	}
	digits := mant
	if i := strings.IndexByte(mant, '.'); i >= 0 {
		digits = mant[:i] + mant[i+1:]
		exp -= len(mant) - i - 1
	}
	if digits == "" {
		return 0, false
	}
	for _, c := range digits {
		if c < '0' || c > '9' {
			return 0, false
		}
	}
	n, _ := new(big.Int).SetString(digits, 10)
	if n.Sign() == 0 {
		return 0, true
	}
	if exp+len(digits) > 400 {
		return math.Inf(1), true
	}
	if exp+len(digits) < -400 {
		return 0, true
	}
	r := new(big.Rat).SetInt(n)
	p := new(big.Int).Exp(big.NewInt(10), big.NewInt(int64(abs(exp))), nil)
	if exp >= 0 {
		r.Mul(r, new(big.Rat).SetInt(p))
	} else {
		r.Quo(r, new(big.Rat).SetInt(p))
	}
	f, _ := r.Float64()
	return f, true
}

func abs(i int) int {
	if i < 0 {
		return -i
	}
	return i
}

// ------------------------------------------------------------------- strings

// CanonString spells s as a double-quoted literal with decimal escapes.
func CanonString(s string) string {
	var sb strings.Builder
	sb.WriteByte('"')
	for i := 0; i < len(s); i++ {
		c := s[i]
		switch {
		case c == '"' || c == '\\':
			sb.WriteByte('\\')
			sb.WriteByte(c)
		case c >= 32 && c < 127:
			sb.WriteByte(c)
		default:
			fmt.Fprintf(&sb, "\\%03d", c)
		}
	}
	sb.WriteByte('"')
	return sb.String()
}

// UTF8Ext encodes a code point below 2^31 in the extended UTF-8 of §3.1
// ("\u{XXX} ... a value less than 2^31", sequences of up to six bytes).
func UTF8Ext(cp uint32) []byte {
	switch {
	case cp < 0x80:
		return []byte{byte(cp)}
	case cp < 0x800:
		return []byte{0xC0 | byte(cp>>6), 0x80 | byte(cp&0x3F)}
	case cp < 0x10000:
		return []byte{0xE0 | byte(cp>>12), 0x80 | byte(cp>>6&0x3F), 0x80 | byte(cp&0x3F)}
	case cp < 0x200000:
		return []byte{0xF0 | byte(cp>>18), 0x80 | byte(cp>>12&0x3F), 0x80 | byte(cp>>6&0x3F), 0x80 | byte(cp&0x3F)}
	case cp < 0x4000000:
		return []byte{0xF8 | byte(cp>>24), 0x80 | byte(cp>>18&0x3F), 0x80 | byte(cp>>12&0x3F), 0x80 | byte(cp>>6&0x3F), 0x80 | byte(cp&0x3F)}
	}
	return []byte{0xFC | byte(cp>>30), 0x80 | byte(cp>>24&0x3F), 0x80 | byte(cp>>18&0x3F), 0x80 | byte(cp>>12&0x3F), 0x80 | byte(cp>>6&0x3F), 0x80 | byte(cp&0x3F)}
}

// StrUnit is one unit of string content together with what it denotes.
//
//	'b' one byte B
//	'u' code point CP, denoting its extended UTF-8 encoding
//	'n' a line break, denoting "\n" however it is spelled
//	'z' nothing: \z followed by white space that is skipped
type StrUnit struct {
	Kind byte   `json:"k"`
	B    byte   `json:"b,omitempty"`
	CP   uint32 `json:"cp,omitempty"`
}

func (u StrUnit) Bytes() []byte {
	switch u.Kind {
	case 'b':
		return []byte{u.B}
	case 'u':
		return UTF8Ext(u.CP)
	case 'n':
		return []byte{'\n'}
	}
	return nil
}

// UnitsBytes is the string the units denote.
func UnitsBytes(us []StrUnit) []byte {
	var out []byte
	for _, u := range us {
		out = append(out, u.Bytes()...)
	}
	return out
}

var named = map[byte]byte{7: 'a', 8: 'b', 12: 'f', 10: 'n', 13: 'r', 9: 't', 11: 'v', '\\': '\\', '"': '"', '\'': '\''}

var newlineSpellings = []string{"\n", "\r", "\r\n", "\n\r"}

type piece struct {
	text     string
	shortDec bool // a decimal escape with fewer than 3 digits: must not be followed by a digit
	dec      byte
	skip     bool // \z...: must not be followed by raw white space
}

func isBlank(c byte) bool {
	return c == ' ' || c == '\t' || c == '\n' || c == '\v' || c == '\f' || c == '\r'
}

func spellByte(c byte, quote byte, ch Chooser, mustEscape bool) piece {
	rawOK := c != quote && c != '\\' && c != '\n' && c != '\r' && !(mustEscape && isBlank(c))
	for {
		switch k := ch.Intn(8); {
		case k < 4 && rawOK:
			return piece{text: string([]byte{c})}
		case k == 4:
			if n, ok := named[c]; ok && c != '\n' { // \n for a byte 10 is spelled by the 'n' unit as well; fine here too
				return piece{text: "\\" + string([]byte{n})}
			} else if ok {
				return piece{text: "\\n"}
			}
		case k == 5:
			return piece{text: fmt.Sprintf("\\x%02x", c)}
		case k == 6:
			return piece{text: fmt.Sprintf("\\x%02X", c)}
		case k == 7:
			w := 1 + ch.Intn(3)
			t := fmt.Sprintf("\\%0*d", w, c)
			return piece{text: t, shortDec: len(t) < 4, dec: c}
		case k < 4 && !rawOK:
			if c < 0x80 && ch.Intn(2) == 0 {
				return piece{text: fmt.Sprintf("\\u{%X}", c)}
			}
			if n, ok := named[c]; ok {
				return piece{text: "\\" + string([]byte{n})}
			}
			return piece{text: fmt.Sprintf("\\%03d", c)}
		}
	}
}

func joinPieces(ps []piece) string {
	var sb strings.Builder
	for i, p := range ps {
		t := p.text
		if p.shortDec && i+1 < len(ps) && ps[i+1].text != "" && ps[i+1].text[0] >= '0' && ps[i+1].text[0] <= '9' {
			t = fmt.Sprintf("\\%03d", p.dec)
		}
		sb.WriteString(t)
	}
	return sb.String()
}

// SpellShort spells the units as a short literal string delimited by quote
// (' or "), drawing for every unit one of its spellings: raw byte, named
// escape, \xXX, \ddd (1 to 3 digits), \u{XXX} (any number of leading zeros),
// \<line break> with every kind of line break, \z followed by white space.
func SpellShort(us []StrUnit, quote byte, ch Chooser) string {
	ps := []piece{{text: string([]byte{quote})}}
	afterSkip := false
	for _, u := range us {
		var p piece
		switch u.Kind {
		case 'b':
			p = spellByte(u.B, quote, ch, afterSkip)
		case 'u':
			switch ch.Intn(4) {
			case 0: // raw bytes of the encoding (each may itself be escaped)
				var sub []piece
				for i, b := range UTF8Ext(u.CP) {
					sub = append(sub, spellByte(b, quote, ch, afterSkip && i == 0))
				}
				p = piece{text: joinPieces(sub)}
				if last := sub[len(sub)-1]; last.shortDec {
					// keep the "not followed by a digit" obligation of the last piece
					p = piece{text: joinPieces(sub[:len(sub)-1]) + fmt.Sprintf("\\%03d", last.dec)}
				}
			case 1:
				p = piece{text: fmt.Sprintf("\\u{%s%x}", strings.Repeat("0", ch.Intn(10)), u.CP)}
			default:
				p = piece{text: fmt.Sprintf("\\u{%X}", u.CP)}
			}
		case 'n':
			switch ch.Intn(4) {
			case 0:
				p = piece{text: "\\n"}
			case 1:
				p = spellByte('\n', quote, ch, true)
			default:
				p = piece{text: "\\" + newlineSpellings[ch.Intn(4)]}
			}
		case 'z':
			var sb strings.Builder
			sb.WriteString("\\z")
			for n := ch.Intn(5); n > 0; n-- {
				sb.WriteString([]string{" ", "  ", "\t", "\n", "\r\n", "\r", "\n\r", "\f", "\v", "\n\n"}[ch.Intn(10)])
			}
			p = piece{text: sb.String(), skip: true}
		}
		afterSkip = p.skip
		ps = append(ps, p)
	}
	ps = append(ps, piece{text: string([]byte{quote})})
	return joinPieces(ps)
}

// LongSpellable reports whether the units can be written in a long bracket:
// no escapes exist there, so every unit must be raw content, and a carriage
// return cannot be denoted at all (every line break reads as "\n").
func LongSpellable(us []StrUnit) bool {
	for _, u := range us {
		if u.Kind == 'z' || (u.Kind == 'b' && u.B == '\r') || (u.Kind == 'u' && u.CP == '\r') {
			return false
		}
	}
	return true
}

// SpellLong spells the units as a long bracket of the given level, drawing a
// spelling for every line break (LF, CR, CRLF, LFCR) and optionally adding
// the line break that is skipped right after the opening bracket (it is
// required when the content itself starts with a line break). ok is false if
// the content contains the closing bracket of that level.
func SpellLong(us []StrUnit, level int, ch Chooser) (text string, ok bool) {
	if !LongSpellable(us) {
		return "", false
	}
	content := UnitsBytes(us)
	closer := "]" + strings.Repeat("=", level) + "]"
	if strings.Index(string(content)+closer, closer) != len(content) {
		return "", false
	}
	// line-break pieces in sequence must not merge: a lone LF followed by CR (or
	// CR followed by LF) reads as ONE line break
	var sb strings.Builder
	sb.WriteString("[" + strings.Repeat("=", level) + "[")
	last := byte(0) // the lone line-break character just written, if any
	brk := func() {
		s := newlineSpellings[ch.Intn(4)]
		if last != 0 && s[0] != last {
			s = string([]byte{last}) // repeat the same lone character: two breaks
		}
		sb.WriteString(s)
		last = 0
		if len(s) == 1 {
			last = s[0]
		}
	}
	startsWithBreak := len(content) > 0 && content[0] == '\n'
	if startsWithBreak || ch.Intn(3) == 0 {
		brk()
	}
	for _, u := range us {
		b := u.Bytes()
		if len(b) == 1 && b[0] == '\n' {
			brk()
			continue
		}
		sb.Write(b)
		last = 0
	}
	sb.WriteString(closer)
	return sb.String(), true
}
