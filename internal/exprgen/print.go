package exprgen

import (
	"strconv"
	"strings"
)

// NeedParens reports whether the grammar needs parentheses around child when
// it is an operand of an operator of the given parent, by the precedence
// table and the associativities of §3.4.8. side: 0 left operand, 1 right
// operand of a binary parent; 2 operand of a unary parent.
func NeedParens(parent string, side int, child *Expr) bool {
	if child.IsLeaf() {
		return false
	}
	cp := child.Prec()
	if side == 2 {
		// unary operators bind tighter than every binary operator except ^;
		// a unary operand of a unary operator needs nothing (- -x, not not x)
		return cp < unaryPrec
	}
	pp := binPrec[parent]
	if IsUnary(child.Op) {
		// As a right operand a unary expression never needs parentheses
		// (2^-3, a .. -b, a * not b). As a left operand it does only under ^,
		// the one operator that binds tighter: (-2)^2 versus -2^2.
		return side == 0 && cp < pp
	}
	switch {
	case cp < pp:
		return true
	case cp > pp:
		return false
	}
	// same level: left associative operators group to the left, .. and ^ to the right
	if RightAssoc(parent) {
		return side == 0
	}
	return side == 1
}

// ParenFn decides how many pairs of parentheses to print around node e;
// needed tells whether the grammar requires at least one pair.
type ParenFn func(e *Expr, needed bool) int

// MinParens prints exactly the parentheses the grammar needs.
func MinParens(e *Expr, needed bool) int {
	if needed {
		return 1
	}
	return 0
}

// FullParens parenthesises every operator node (no precedence rule is needed
// to read the result).
func FullParens(e *Expr, needed bool) int {
	if e.IsLeaf() {
		return 0
	}
	return 1
}

// RandomParens adds 0..2 redundant pairs anywhere (leaves included).
func RandomParens(ch Chooser) ParenFn {
	return func(e *Expr, needed bool) int {
		n := 0
		if needed {
			n = 1
		}
		switch ch.Intn(8) {
		case 0, 1:
			n++
		case 2:
			n += 2
		}
		return n
	}
}

// PrecedenceDecides reports whether the minimal rendering relies on a
// precedence or associativity rule somewhere: some operator node has an
// operator child that is printed without parentheses.
func PrecedenceDecides(e *Expr) bool {
	if e.IsLeaf() {
		return false
	}
	if IsUnary(e.Op) {
		return (!e.R.IsLeaf() && !NeedParens(e.Op, 2, e.R)) || PrecedenceDecides(e.R)
	}
	if !e.L.IsLeaf() && !NeedParens(e.Op, 0, e.L) {
		return true
	}
	if !e.R.IsLeaf() && !NeedParens(e.Op, 1, e.R) {
		return true
	}
	return PrecedenceDecides(e.L) || PrecedenceDecides(e.R)
}

// LeafToken is the source spelling of a leaf (Sp if set, else canonical).
func (e *Expr) LeafToken() string {
	if e.Sp != "" {
		return e.Sp
	}
	v := e.LeafValue()
	switch v.K {
	case 'n':
		return "nil"
	case 'b':
		if v.B {
			return "true"
		}
		return "false"
	case 'i':
		return CanonInt(v.I)
	case 'f':
		return CanonFloat(v.F)
	}
	return CanonString(v.S)
}

// Tokens prints the tree as a token list.
func (e *Expr) Tokens(par ParenFn) []string {
	var out []string
	var emit func(e *Expr, needed bool)
	emit = func(e *Expr, needed bool) {
		n := par(e, needed)
		for i := 0; i < n; i++ {
			out = append(out, "(")
		}
		switch {
		case e.IsLeaf():
			out = append(out, e.LeafToken())
		case IsUnary(e.Op):
			out = append(out, UnToken[e.Op])
			emit(e.R, NeedParens(e.Op, 2, e.R))
		default:
			emit(e.L, NeedParens(e.Op, 0, e.L))
			out = append(out, e.Op)
			emit(e.R, NeedParens(e.Op, 1, e.R))
		}
		for i := 0; i < n; i++ {
			out = append(out, ")")
		}
	}
	emit(e, false)
	return out
}

func isWordByte(c byte) bool {
	return c == '_' || (c >= '0' && c <= '9') || (c >= 'a' && c <= 'z') || (c >= 'A' && c <= 'Z')
}

// NeedSep reports whether tokens a and b would be read differently if written
// without anything between them (lexical grammar §3.1: the longest token is
// taken; a numeral swallows following letters, digits and dots; -- starts a
// comment; [[ and [= start a long bracket).
func NeedSep(a, b string) bool {
	if a == "" || b == "" {
		return false
	}
	x, y := a[len(a)-1], b[0]
	switch {
	case isWordByte(x) && isWordByte(y): // names, keywords, numerals against each other
		return true
	case x == '.' && y == '.': // .. next to . or to a numeral ending/starting with a dot
		return true
	case isNumeral(a) && (y == '.' || isWordByte(y)): // 1 .. x, 0xA .., 2. and
		return true
	case x == '.' && y >= '0' && y <= '9':
		return true
	}
	switch string([]byte{x, y}) {
	case "--", "[[", "[=", "<<", "<=", ">>", ">=", "==", "~=", "//", "::":
		return true
	}
	return false
}

func isNumeral(s string) bool {
	return s != "" && (s[0] >= '0' && s[0] <= '9' || (s[0] == '.' && len(s) > 1 && s[1] >= '0' && s[1] <= '9'))
}

// GapFn yields what is written between two adjacent tokens.
type GapFn func(prev, next string) string

// MinGap writes a blank only where the lexer needs one.
func MinGap(prev, next string) string {
	if NeedSep(prev, next) {
		return " "
	}
	return ""
}

// SpaceGap writes one blank between all tokens.
func SpaceGap(prev, next string) string { return " " }

var blanks = []string{" ", " ", " ", "  ", "\t", "\n", "\r\n", "\r", "\n\r", "\f", "\v", " \n "}

// Line comments. By §3.1 "a comment starts with a double hyphen (--)
// anywhere outside a string. If the text immediately after -- is not an
// opening long bracket, the comment is a short comment, which runs until the
// end of the line".
var lineCommentTexts = []string{"", "x", " c ]] ", "]]", "-", "- -[[", " \"", " '", "[ [", "[x", "[=x", "[== ", "=[[", " [[ ]]", "[]]", "\\"}

// short comments made of an unfinished opening long bracket only
var bareBracketTexts = []string{"[", "[=", "[=="}

var lineEnds = []string{"\n", "\n", "\r\n", "\r", "\n\r"}

var longComments = []string{
	"--[[]]", "--[[ c ]]", "--[[\n]]", "--[[ a\n b ]]", "--[[ -- ]]", "--[[ [[ ]]", "--[[]=]]",
	"--[=[ ]] ]=]", "--[==[ ]] ]=] ]==]", "--[==[\r\n]==]", "--[===[ ]==] ]====] ]===]", "--[=[]=]", "--[[ ' \" ]]",
}

// RandomGap draws white space and comments: blanks of every kind, line
// comments (ended by every kind of line break) and long comments of several
// levels. about half of the gaps stay minimal.
func RandomGap(ch Chooser) GapFn {
	return func(prev, next string) string {
		k := ch.Intn(16)
		if k < 8 {
			return MinGap(prev, next)
		}
		var sb strings.Builder
		n := 1
		if k >= 14 {
			n = 2 + ch.Intn(2)
		}
		for i := 0; i < n; i++ {
			switch ch.Intn(5) {
			case 0, 1, 2:
				sb.WriteString(blanks[ch.Intn(len(blanks))])
			case 3:
				txt := lineCommentTexts[ch.Intn(len(lineCommentTexts))]
				if ch.Intn(30) == 0 {
					txt = bareBracketTexts[ch.Intn(len(bareBracketTexts))]
				}
				sb.WriteString("--" + txt + lineEnds[ch.Intn(len(lineEnds))])
			default:
				sb.WriteString(longComments[ch.Intn(len(longComments))])
			}
		}
		g := sb.String()
		// a comment right after a '-' token would turn "- --x" into "---x": the
		// minus would become part of the comment
		if strings.HasSuffix(prev, "-") && strings.HasPrefix(g, "-") {
			g = " " + g
		}
		// a gap made only of long comments does not separate tokens... it does
		// (a comment is skipped like white space), but be explicit for numerals:
		// "1--[[]]2" is fine; "1--[[]]..": fine as well. What a comment cannot do
		// is end with something that merges with the next token: it ends with
		// "]" or a line break, and "]" merges with nothing.
		if g == "" && NeedSep(prev, next) {
			g = " "
		}
		return g
	}
}

// Join writes the tokens with gaps.
func Join(tokens []string, gap GapFn) string {
	var sb strings.Builder
	for i, t := range tokens {
		if i > 0 {
			sb.WriteString(gap(tokens[i-1], t))
		}
		sb.WriteString(t)
	}
	return sb.String()
}

// HasBareBracketLineComment reports whether src contains a short comment
// whose text is "[" followed by zero or more "=" and then the end of the line
// (the input class of finding C12-comment-bracket-eol).
func HasBareBracketLineComment(gap string) bool {
	i := 0
	for {
		j := strings.Index(gap[i:], "--[")
		if j < 0 {
			return false
		}
		k := i + j + 3
		for k < len(gap) && gap[k] == '=' {
			k++
		}
		if k < len(gap) && (gap[k] == '\n' || gap[k] == '\r') {
			return true
		}
		i = i + j + 2
	}
}

// CanonInt spells a non-negative integer in decimal.
func CanonInt(i int64) string {
	if i < 0 {
		panic("exprgen: negative leaf")
	}
	return strconv.FormatInt(i, 10)
}
