package exprgen

// Want is the kind of value a position should receive so that evaluation is
// total (no run-time type error) and discriminating.
type Want int

const (
	WAny     Want = iota
	WBool         // true, false (nil now and then)
	WNum          // integer or float
	WArith        // number, or now and then a numeric string (coerced by arithmetic)
	WInt          // integer
	WIntLike      // integer or float with an integral value (bitwise operands)
	WStr          // string
	WCat          // string or integer: operands of .. (never a float: its text form is unspecified)
	WPowBase      // 2, 4, 0.5, 2.0, 3: bases whose powers are exact
	WPowExp       // 0..3
)

var (
	poolInt     = []Value{Int(1), Int(2), Int(3), Int(5), Int(7), Int(10), Int(2), Int(3), Int(0)}
	poolFloat   = []Value{Float(0.5), Float(2), Float(1.5), Float(0.25), Float(4)}
	poolIntLike = []Value{Int(1), Int(2), Int(3), Int(5), Int(7), Int(10), Float(2), Float(4), Float(1)}
	poolStr     = []Value{Str("a"), Str("b"), Str("10"), Str("2"), Str("ab"), Str("")}
	poolNumStr  = []Value{Str("10"), Str("2"), Str("0x10"), Str("1e1")}
	poolBool    = []Value{Bool(true), Bool(false), Bool(true), Bool(false), Nil()}
	poolPowBase = []Value{Int(2), Int(4), Float(0.5), Float(2), Int(3)}
	poolPowExp  = []Value{Int(0), Int(1), Int(2), Int(3), Int(2)}
)

func pick(ch Chooser, p []Value) Value { return p[ch.Intn(len(p))] }

// LeafFor draws a leaf value for a want.
func LeafFor(w Want, ch Chooser) Value {
	switch w {
	case WBool:
		return pick(ch, poolBool)
	case WNum:
		if ch.Intn(3) == 0 {
			return pick(ch, poolFloat)
		}
		return pick(ch, poolInt)
	case WArith:
		switch ch.Intn(8) {
		case 0:
			return pick(ch, poolNumStr)
		case 1, 2:
			return pick(ch, poolFloat)
		}
		return pick(ch, poolInt)
	case WInt:
		return pick(ch, poolInt)
	case WIntLike:
		return pick(ch, poolIntLike)
	case WStr:
		return pick(ch, poolStr)
	case WCat:
		if ch.Intn(3) == 0 {
			return pick(ch, poolInt)
		}
		return pick(ch, poolStr)
	case WPowBase:
		return pick(ch, poolPowBase)
	case WPowExp:
		return pick(ch, poolPowExp)
	}
	switch ch.Intn(6) {
	case 0:
		return pick(ch, poolBool)
	case 1:
		return pick(ch, poolStr)
	case 2:
		return pick(ch, poolFloat)
	}
	return pick(ch, poolInt)
}

// ChildWants gives the wants of the operands of op when the node itself
// should produce `want`. (A node whose operator cannot produce `want` still
// gets operands that suit the operator: the error then comes from the parent,
// and is the expected outcome.)
func ChildWants(op string, want Want, ch Chooser) (l, r Want) {
	switch op {
	case "or", "and":
		if want == WPowBase || want == WPowExp {
			want = WNum
		}
		return want, want
	case "not":
		return WAny, WAny
	case "#":
		return WStr, WStr
	case "neg":
		switch want {
		case WInt, WIntLike:
			return want, want
		case WCat:
			return WInt, WInt
		case WPowExp:
			return WPowExp, WPowExp
		}
		return WArith, WArith
	case "bnot", "|", "~", "&", "<<", ">>":
		return WIntLike, WIntLike
	case "<", ">", "<=", ">=":
		if ch.Intn(3) == 0 {
			return WStr, WStr
		}
		return WNum, WNum
	case "==", "~=":
		w := []Want{WNum, WNum, WStr, WBool, WAny, WIntLike}[ch.Intn(6)]
		return w, w
	case "..":
		return WCat, WCat
	case "+", "-", "*", "//", "%":
		switch want {
		case WInt, WCat:
			return WInt, WInt
		case WIntLike:
			return WIntLike, WIntLike
		}
		return WArith, WArith
	case "/":
		return WArith, WArith
	case "^":
		return WPowBase, WPowExp
	}
	panic("exprgen: ChildWants " + op)
}

// AssignLeaves fills the leaves of a tree whose shape is given.
func AssignLeaves(e *Expr, want Want, ch Chooser) {
	if e.IsLeaf() {
		*e = *LeafOf(LeafFor(want, ch))
		return
	}
	l, r := ChildWants(e.Op, want, ch)
	if e.L != nil {
		AssignLeaves(e.L, l, ch)
	}
	AssignLeaves(e.R, r, ch)
}

var opsFor = map[Want][]string{
	WAny:     append(append([]string{}, BinOps...), UnOps...),
	WBool:    {"<", ">", "<=", ">=", "~=", "==", "not", "and", "or", "<", "=="},
	WNum:     {"+", "-", "*", "/", "//", "%", "^", "neg", "#", "and", "or", "|", "~", "&", "<<", ">>", "bnot"},
	WArith:   {"+", "-", "*", "/", "//", "%", "^", "neg", "#", "and", "or", "|", "&"},
	WInt:     {"+", "-", "*", "//", "%", "neg", "#", "|", "~", "&", "<<", ">>", "bnot", "and", "or"},
	WIntLike: {"+", "-", "*", "//", "%", "neg", "#", "|", "~", "&", "<<", ">>", "bnot", "and", "or"},
	WStr:     {"..", "..", "and", "or"},
	WCat:     {"..", "..", "+", "-", "*", "//", "%", "neg", "#", "and", "or", "&", "<<"},
	WPowBase: {},
	WPowExp:  {"neg"},
}

// GenTree draws a tree of at most the given depth whose evaluation is
// (mostly) total: operators are chosen among those that can produce `want`.
func GenTree(ch Chooser, depth int, want Want) *Expr { return genTree(ch, depth, want, true) }

func genTree(ch Chooser, depth int, want Want, root bool) *Expr {
	ops := opsFor[want]
	if depth <= 0 || len(ops) == 0 || (!root && ch.Intn(6) == 0) {
		return LeafOf(LeafFor(want, ch))
	}
	op := ops[ch.Intn(len(ops))]
	l, r := ChildWants(op, want, ch)
	e := &Expr{Op: op}
	if IsBinary(op) {
		e.L = genTree(ch, depth-1, l, false)
	}
	e.R = genTree(ch, depth-1, r, false)
	return e
}

// RespellLeaves draws non-canonical spellings for some leaves.
func RespellLeaves(e *Expr, ch Chooser) {
	if !e.IsLeaf() {
		if e.L != nil {
			RespellLeaves(e.L, ch)
		}
		RespellLeaves(e.R, ch)
		return
	}
	if ch.Intn(3) != 0 {
		return
	}
	switch v := e.LeafValue(); v.K {
	case 'i':
		e.Sp = IntSpelling(v.I, ch)
	case 'f':
		e.Sp = FloatSpelling(v.F, ch)
	case 's':
		us := make([]StrUnit, len(v.S))
		for i := range us {
			us[i] = StrUnit{Kind: 'b', B: v.S[i]}
		}
		if ch.Intn(3) == 0 {
			if t, ok := SpellLong(us, ch.Intn(3), ch); ok {
				e.Sp = t
				return
			}
		}
		e.Sp = SpellShort(us, "'\""[ch.Intn(2)], ch)
	}
}

// ---------------------------------------------------------------------- flat

// ParseFlat builds the tree that the manual's precedence table assigns to a
// flat, parenthesis-free sequence. items alternates operands and binary
// operators; an operand is a run of unary operator names followed by "$"
// (a placeholder leaf): e.g. {"neg","$","^","$","..","not","$"}.
func ParseFlat(items []string) *Expr {
	p := &flatParser{items: items}
	e := p.expr(1)
	if p.pos != len(items) {
		panic("exprgen: ParseFlat: trailing items")
	}
	return e
}

type flatParser struct {
	items []string
	pos   int
}

func (p *flatParser) peek() string {
	if p.pos < len(p.items) {
		return p.items[p.pos]
	}
	return ""
}

// expr parses operators of precedence >= min.
func (p *flatParser) expr(min int) *Expr {
	left := p.operand()
	for {
		op := p.peek()
		pr, ok := binPrec[op]
		if !ok || pr < min {
			return left
		}
		p.pos++
		next := pr + 1 // left associative: the right operand takes only tighter operators
		if RightAssoc(op) {
			next = pr
		}
		right := p.expr(next)
		left = &Expr{Op: op, L: left, R: right}
	}
}

func (p *flatParser) operand() *Expr {
	t := p.peek()
	p.pos++
	if t == "$" {
		return &Expr{}
	}
	if !IsUnary(t) {
		panic("exprgen: ParseFlat: operand expected, got " + t)
	}
	// the operand of a unary operator is everything that binds tighter than
	// the unary operators: only ^
	return &Expr{Op: t, R: p.expr(unaryPrec + 1)}
}

// FlatTokens is the source form of a flat sequence once its leaves are known
// (leaves in order of appearance).
func FlatTokens(items []string, leaves []*Expr) []string {
	var out []string
	k := 0
	for _, it := range items {
		switch {
		case it == "$":
			out = append(out, leaves[k].LeafToken())
			k++
		case IsUnary(it):
			out = append(out, UnToken[it])
		default:
			out = append(out, it)
		}
	}
	return out
}

// Leaves lists the leaves in order of appearance.
func (e *Expr) Leaves() []*Expr {
	if e.IsLeaf() {
		return []*Expr{e}
	}
	var out []*Expr
	if e.L != nil {
		out = e.L.Leaves()
	}
	return append(out, e.R.Leaves()...)
}
