package exprgen

import (
	"errors"
	"fmt"
	"math"
	"strconv"
	"strings"

	"verif/internal/numref"
)

// Expr is a constant expression tree. A leaf has Op == "" and a value in
// Leaf; a unary node has its operand in R; a binary node has L and R.
//
// Operator names: the binary operators are named by their token; the unary
// operators are "not", "#", "neg" (unary minus) and "bnot" (unary ~).
type Expr struct {
	Op   string `json:"op,omitempty"`
	L    *Expr  `json:"l,omitempty"`
	R    *Expr  `json:"r,omitempty"`
	Leaf string `json:"leaf,omitempty"` // nil | true | false | i:<dec> | f:<hex bits> | s:<text>
	Sp   string `json:"sp,omitempty"`   // source spelling of the leaf ("" = canonical)
}

// BinOps lists the 21 binary operators from lowest to highest precedence.
var BinOps = []string{"or", "and", "<", ">", "<=", ">=", "~=", "==", "|", "~", "&", "<<", ">>", "..", "+", "-", "*", "/", "//", "%", "^"}

// UnOps lists the 4 unary operators.
var UnOps = []string{"not", "#", "neg", "bnot"}

// UnToken is the source token of a unary operator.
var UnToken = map[string]string{"not": "not", "#": "#", "neg": "-", "bnot": "~"}

// Precedence table of the manual §3.4.8, from lower to higher priority:
//
//	or
//	and
//	<     >     <=    >=    ~=    ==
//	|
//	~
//	&
//	<<    >>
//	..
//	+     -
//	*     /     //    %
//	unary operators (not   #     -     ~)
//	^
//
// "The concatenation ('..') and exponentiation ('^') operators are right
// associative. All other binary operators are left associative."
var binPrec = map[string]int{
	"or": 1, "and": 2,
	"<": 3, ">": 3, "<=": 3, ">=": 3, "~=": 3, "==": 3,
	"|": 4, "~": 5, "&": 6, "<<": 7, ">>": 7, "..": 8,
	"+": 9, "-": 9, "*": 10, "/": 10, "//": 10, "%": 10,
	"^": 12,
}

const unaryPrec = 11

func IsUnary(op string) bool    { _, ok := UnToken[op]; return ok }
func IsBinary(op string) bool   { _, ok := binPrec[op]; return ok }
func RightAssoc(op string) bool { return op == ".." || op == "^" }

func (e *Expr) IsLeaf() bool { return e.Op == "" }

// Prec is the precedence level of the node's operator (leaves: 99).
func (e *Expr) Prec() int {
	switch {
	case e.IsLeaf():
		return 99
	case IsUnary(e.Op):
		return unaryPrec
	}
	return binPrec[e.Op]
}

func LeafOf(v Value) *Expr {
	switch v.K {
	case 'n':
		return &Expr{Leaf: "nil"}
	case 'b':
		if v.B {
			return &Expr{Leaf: "true"}
		}
		return &Expr{Leaf: "false"}
	case 'i':
		return &Expr{Leaf: "i:" + strconv.FormatInt(v.I, 10)}
	case 'f':
		return &Expr{Leaf: "f:" + strconv.FormatUint(math.Float64bits(v.F), 16)}
	}
	return &Expr{Leaf: "s:" + v.S}
}

// LeafValue decodes a leaf.
func (e *Expr) LeafValue() Value {
	s := e.Leaf
	switch {
	case s == "nil":
		return Nil()
	case s == "true":
		return Bool(true)
	case s == "false":
		return Bool(false)
	case strings.HasPrefix(s, "i:"):
		n, _ := strconv.ParseInt(s[2:], 10, 64)
		return Int(n)
	case strings.HasPrefix(s, "f:"):
		b, _ := strconv.ParseUint(s[2:], 16, 64)
		return Float(math.Float64frombits(b))
	case strings.HasPrefix(s, "s:"):
		return Str(s[2:])
	}
	panic("exprgen: bad leaf " + s)
}

// Size is the number of operator nodes.
func (e *Expr) Size() int {
	if e.IsLeaf() {
		return 0
	}
	n := 1
	if e.L != nil {
		n += e.L.Size()
	}
	return n + e.R.Size()
}

// ---------------------------------------------------------------- evaluation

// Result is what a tree evaluates to.
type Result struct {
	V   Value
	Err string // non-empty: evaluation raises an error (the text is only descriptive)
	// Soft is non-empty when the outcome depends on something the manual
	// leaves to the implementation (float->string format, accuracy of pow,
	// ...); then only the agreement of all renderings is checked.
	Soft string
}

func (r Result) String() string {
	s := r.V.Enc()
	if r.Err != "" {
		s = "error(" + r.Err + ")"
	}
	if r.Soft != "" {
		s += " [soft: " + r.Soft + "]"
	}
	return s
}

type evalState struct{ soft string }

func (st *evalState) taint(why string) {
	if st.soft == "" {
		st.soft = why
	}
}

var errLua = errors.New("lua error")

type luaErr string

func (e luaErr) Error() string { return string(e) }

// Eval evaluates the TREE by the manual's semantics.
func Eval(e *Expr) Result {
	st := &evalState{}
	v, err := st.eval(e)
	r := Result{V: v, Soft: st.soft}
	if err != nil {
		r.V = Nil()
		r.Err = err.Error()
	}
	return r
}

func typeName(v Value) string {
	switch v.K {
	case 'n':
		return "nil"
	case 'b':
		return "boolean"
	case 'i', 'f':
		return "number"
	}
	return "string"
}

func toNum(v Value) numref.Num {
	if v.K == 'i' {
		return numref.Int(v.I)
	}
	return numref.Float(v.F)
}

func fromNum(n numref.Num) Value {
	if n.IsInt {
		return Int(n.I)
	}
	return Float(n.F)
}

// arithOperand: numbers, and strings convertible to numbers (§3.4.3).
func arithOperand(v Value) (numref.Num, bool) {
	switch v.K {
	case 'i', 'f':
		return toNum(v), true
	case 's':
		return numref.StringToNumber(v.S)
	}
	return numref.Num{}, false
}

// powExact computes x^y when the result is determined independently of the
// accuracy of the C library's pow.
func powExact(a, b numref.Num) (float64, bool) {
	x, y := a.AsFloat(), b.AsFloat()
	switch {
	case y == 0 || x == 1:
		return 1, true
	case x != x || y != y:
		return math.NaN(), true
	case x == 0 || math.IsInf(x, 0) || math.IsInf(y, 0):
		return math.Pow(x, y), true // C99 Annex F special cases, identical in Go
	}
	if y == math.Trunc(y) && math.Abs(y) <= 2048 {
		if m, ex := math.Frexp(math.Abs(x)); m == 0.5 { // |x| = 2^(ex-1)
			r := math.Ldexp(1, (ex-1)*int(y))
			if x < 0 && math.Mod(y, 2) != 0 {
				r = -r
			}
			return r, true
		}
		if _, exact, ok := numref.Pow(a, b); ok {
			return exact, true
		}
	}
	if y == 0.5 && x > 0 {
		if r := math.Sqrt(x); r*r == x && r == math.Trunc(r) && r < 1<<26 {
			return r, true
		}
	}
	return math.Pow(x, y), false
}

func fmtFloatGuess(f float64) string {
	switch {
	case f != f:
		if math.Signbit(f) {
			return "-nan"
		}
		return "nan"
	case math.IsInf(f, 1):
		return "inf"
	case math.IsInf(f, -1):
		return "-inf"
	}
	s := strconv.FormatFloat(f, 'g', 14, 64)
	if !strings.ContainsAny(s, ".eEn") {
		s += ".0"
	}
	return s
}

func (st *evalState) eval(e *Expr) (Value, error) {
	if e.IsLeaf() {
		return e.LeafValue(), nil
	}
	switch e.Op {
	case "and":
		l, err := st.eval(e.L)
		if err != nil || !l.Truthy() {
			return l, err
		}
		return st.eval(e.R)
	case "or":
		l, err := st.eval(e.L)
		if err != nil || l.Truthy() {
			return l, err
		}
		return st.eval(e.R)
	}
	if IsUnary(e.Op) {
		v, err := st.eval(e.R)
		if err != nil {
			return v, err
		}
		return st.unary(e.Op, v)
	}
	// "Both operands are evaluated" (left to right is what every implementation does; only the
	// presence of an error is compared, so the order does not matter here).
	l, err := st.eval(e.L)
	if err != nil {
		return l, err
	}
	r, err := st.eval(e.R)
	if err != nil {
		return r, err
	}
	return st.binary(e.Op, l, r)
}

func (st *evalState) unary(op string, v Value) (Value, error) {
	switch op {
	case "not":
		return Bool(!v.Truthy()), nil
	case "#":
		if v.K != 's' {
			return Nil(), luaErr("attempt to get length of a " + typeName(v) + " value")
		}
		return Int(int64(len(v.S))), nil
	case "neg":
		n, ok := arithOperand(v)
		if !ok {
			return Nil(), luaErr("attempt to perform arithmetic on a " + typeName(v) + " value")
		}
		return fromNum(numref.Unm(n)), nil
	case "bnot":
		n, err := st.bitOperand(v)
		if err != nil {
			return Nil(), err
		}
		r, e2 := numref.Bnot(n)
		if e2 != nil {
			return Nil(), luaErr(e2.Error())
		}
		return fromNum(r), nil
	}
	panic("exprgen: unary " + op)
}

// bitOperand: §3.4.2 "operate on integers, convert operands to integers".
// A string operand that denotes a number is converted by the manual (§3.4.3
// "string is converted to number when a number is expected") — whether an
// implementation does so belongs to the arithmetic property, not to the front
// end, so that case is soft here.
func (st *evalState) bitOperand(v Value) (numref.Num, error) {
	switch v.K {
	case 'i', 'f':
		return toNum(v), nil
	case 's':
		if n, ok := numref.StringToNumber(v.S); ok {
			st.taint("numeric string operand of a bitwise operator")
			return n, nil
		}
	}
	return numref.Num{}, luaErr("attempt to perform bitwise operation on a " + typeName(v) + " value")
}

func (st *evalState) binary(op string, l, r Value) (Value, error) {
	switch op {
	case "+", "-", "*", "/", "//", "%", "^":
		a, ok1 := arithOperand(l)
		b, ok2 := arithOperand(r)
		if !ok1 || !ok2 {
			bad := l
			if ok1 {
				bad = r
			}
			return Nil(), luaErr("attempt to perform arithmetic on a " + typeName(bad) + " value")
		}
		switch op {
		case "+":
			return fromNum(numref.Add(a, b)), nil
		case "-":
			return fromNum(numref.Sub(a, b)), nil
		case "*":
			return fromNum(numref.Mul(a, b)), nil
		case "/":
			return fromNum(numref.Div(a, b)), nil
		case "//":
			q, err := numref.IDiv(a, b)
			if err != nil {
				return Nil(), luaErr("attempt to perform 'n//0'")
			}
			return fromNum(q), nil
		case "%":
			ms, err := numref.Mod(a, b)
			if err != nil {
				return Nil(), luaErr("attempt to perform 'n%%0'")
			}
			if len(ms) > 1 && !numref.Same(ms[0], ms[1]) {
				st.taint("float modulo by an infinite divisor")
			}
			return fromNum(ms[0]), nil
		default:
			f, exact := powExact(a, b)
			if !exact {
				st.taint("result of ^ depends on the accuracy of pow")
			}
			return Float(f), nil
		}
	case "|", "~", "&", "<<", ">>":
		a, err := st.bitOperand(l)
		if err != nil {
			return Nil(), err
		}
		b, err := st.bitOperand(r)
		if err != nil {
			return Nil(), err
		}
		var n numref.Num
		var e2 error
		switch op {
		case "|":
			n, e2 = numref.Bor(a, b)
		case "~":
			n, e2 = numref.Bxor(a, b)
		case "&":
			n, e2 = numref.Band(a, b)
		case "<<":
			n, e2 = numref.Shl(a, b)
		default:
			n, e2 = numref.Shr(a, b)
		}
		if e2 != nil {
			return Nil(), luaErr(e2.Error())
		}
		return fromNum(n), nil
	case "..":
		var sb strings.Builder
		for _, v := range []Value{l, r} {
			switch v.K {
			case 's':
				sb.WriteString(v.S)
			case 'i':
				sb.WriteString(strconv.FormatInt(v.I, 10))
			case 'f':
				// §3.4.3: "converted to strings in a reasonable format": not specified
				st.taint("float converted to a string by ..")
				sb.WriteString(fmtFloatGuess(v.F))
			default:
				return Nil(), luaErr("attempt to concatenate a " + typeName(v) + " value")
			}
		}
		return Str(sb.String()), nil
	case "==", "~=":
		eq := false
		switch {
		case l.IsNumber() && r.IsNumber():
			eq = numref.Eq(toNum(l), toNum(r))
		case l.K != r.K:
			eq = false
		case l.K == 'n':
			eq = true
		case l.K == 'b':
			eq = l.B == r.B
		case l.K == 's':
			eq = l.S == r.S
		}
		return Bool(eq == (op == "==")), nil
	case "<", ">", "<=", ">=":
		if op == ">" || op == ">=" { // a > b is b < a, a >= b is b <= a (§3.4.4)
			l, r = r, l
		}
		strict := op == "<" || op == ">"
		switch {
		case l.IsNumber() && r.IsNumber():
			if strict {
				return Bool(numref.Lt(toNum(l), toNum(r))), nil
			}
			return Bool(numref.Le(toNum(l), toNum(r))), nil
		case l.K == 's' && r.K == 's':
			// "compared according to the current locale": the generators use ASCII
			// letters and digits only, for which every locale of interest is byte order
			c := strings.Compare(l.S, r.S)
			if strict {
				return Bool(c < 0), nil
			}
			return Bool(c <= 0), nil
		}
		return Nil(), luaErr(fmt.Sprintf("attempt to compare %s with %s", typeName(l), typeName(r)))
	}
	panic("exprgen: binary " + op)
}
