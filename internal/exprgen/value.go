// Package exprgen is the generator side of property C12 (front end): an
// expression-tree type over all Lua 5.4 operators with constant leaves, an
// evaluator of the TREE written from the reference manual (§3.4.1–§3.4.7,
// numbers through internal/numref), a printer that computes the minimal
// parentheses from the manual's precedence table (§3.4.8) and can add
// redundant parentheses, white space and comments, a parser for FLAT operator
// sequences (also from the table), and spellers for every literal form of
// §3.1 together with the value each spelling denotes.
//
// Nothing here calls golua.
package exprgen

import (
	"math"
	"strconv"
)

// Value is a Lua value that a constant expression can have.
type Value struct {
	K byte // 'n' nil, 'b' boolean, 'i' integer, 'f' float, 's' string
	B bool
	I int64
	F float64
	S string
}

func Nil() Value            { return Value{K: 'n'} }
func Bool(b bool) Value     { return Value{K: 'b', B: b} }
func Int(i int64) Value     { return Value{K: 'i', I: i} }
func Float(f float64) Value { return Value{K: 'f', F: f} }
func Str(s string) Value    { return Value{K: 's', S: s} }

// Enc encodes the value exactly like harness.Canon.EncValue encodes golua
// values, so that the two can be compared as strings.
func (v Value) Enc() string {
	switch v.K {
	case 'n':
		return "nil"
	case 'b':
		if v.B {
			return "true"
		}
		return "false"
	case 'i':
		return "i:" + strconv.FormatInt(v.I, 10)
	case 'f':
		if v.F != v.F {
			return "f:nan"
		}
		return "f:" + strconv.FormatUint(math.Float64bits(v.F), 16) + "(" + strconv.FormatFloat(v.F, 'g', -1, 64) + ")"
	case 's':
		return "s:" + strconv.Quote(v.S)
	}
	return "?"
}

func (v Value) Truthy() bool { return !(v.K == 'n' || (v.K == 'b' && !v.B)) }

func (v Value) IsNumber() bool { return v.K == 'i' || v.K == 'f' }

// Chooser is the source of every choice made by the generators in this
// package: rapid in the random parts of a check (so that cases shrink), a
// small deterministic generator in the enumerated parts.
type Chooser interface {
	Intn(n int) int // uniform in [0,n), n >= 1
}

// LCG is a deterministic Chooser (splitmix64).
type LCG struct{ S uint64 }

func (l *LCG) Intn(n int) int {
	l.S += 0x9E3779B97F4A7C15
	z := l.S
	z = (z ^ (z >> 30)) * 0xBF58476D1CE4E5B9
	z = (z ^ (z >> 27)) * 0x94D049BB133111EB
	z ^= z >> 31
	if n <= 1 {
		return 0
	}
	return int(z % uint64(n))
}
