package pbt

import (
	"os"
	"path/filepath"
)

// RaceLog returns the concatenated race-detector reports written so far by
// this process (the driver points GORACE's log_path at VERIF_RACELOG; the
// runtime appends ".<pid>"). Empty when no report exists or when the binary
// was not built with -race.
func RaceLog() string {
	prefix := os.Getenv("VERIF_RACELOG")
	if prefix == "" {
		return ""
	}
	files, _ := filepath.Glob(prefix + ".*")
	var out []byte
	for _, f := range files {
		b, _ := os.ReadFile(f)
		out = append(out, b...)
	}
	return string(out)
}
