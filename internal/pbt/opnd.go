package pbt

import (
	"fmt"
	"math"
	"strconv"
	"strings"
	"unicode/utf8"

	rt "github.com/arnodel/golua/runtime"

	"verif/internal/numref"
)

// Opnd is an operand spec that can be written to JSON (floats by bit pattern),
// turned into a golua value, a Lua source expression, and a model number.
//
//	i:<decimal>   integer
//	f:<hex bits>  float by IEEE bit pattern
//	s:<text>      string
//	nil, true, false, table
type Opnd string

func OInt(i int64) Opnd     { return Opnd("i:" + strconv.FormatInt(i, 10)) }
func OFloat(f float64) Opnd { return Opnd("f:" + strconv.FormatUint(math.Float64bits(f), 16)) }

// OStr encodes a string operand. Strings that JSON cannot carry unchanged
// (invalid UTF-8, control bytes) are written in Go-quoted form ("q:" prefix).
func OStr(s string) Opnd {
	plain := utf8.ValidString(s)
	for i := 0; plain && i < len(s); i++ {
		if s[i] < 0x20 || s[i] == 0x7f {
			plain = false
		}
	}
	if plain {
		return Opnd("s:" + s)
	}
	return Opnd("q:" + strconv.Quote(s))
}

const (
	ONil   Opnd = "nil"
	OTrue  Opnd = "true"
	OFalse Opnd = "false"
	OTable Opnd = "table"
)

func (o Opnd) Kind() byte {
	switch {
	case strings.HasPrefix(string(o), "i:"):
		return 'i'
	case strings.HasPrefix(string(o), "f:"):
		return 'f'
	case strings.HasPrefix(string(o), "s:"), strings.HasPrefix(string(o), "q:"):
		return 's'
	case o == ONil:
		return 'n'
	case o == OTrue || o == OFalse:
		return 'b'
	default:
		return 't'
	}
}

func (o Opnd) Int() int64 {
	n, _ := strconv.ParseInt(string(o[2:]), 10, 64)
	return n
}

func (o Opnd) Float() float64 {
	b, _ := strconv.ParseUint(string(o[2:]), 16, 64)
	return math.Float64frombits(b)
}

func (o Opnd) Str() string {
	if strings.HasPrefix(string(o), "q:") {
		s, _ := strconv.Unquote(string(o[2:]))
		return s
	}
	return string(o[2:])
}

// num returns the model number for numeric operands.
func (o Opnd) Num() (numref.Num, bool) {
	switch o.Kind() {
	case 'i':
		return numref.Int(o.Int()), true
	case 'f':
		return numref.Float(o.Float()), true
	}
	return numref.Num{}, false
}

func (o Opnd) Value() rt.Value {
	switch o.Kind() {
	case 'i':
		return rt.IntValue(o.Int())
	case 'f':
		return rt.FloatValue(o.Float())
	case 's':
		return rt.StringValue(o.Str())
	case 'b':
		return rt.BoolValue(o == OTrue)
	case 't':
		return rt.TableValue(rt.NewTable())
	}
	return rt.NilValue
}

// pretty is for messages.
func (o Opnd) Pretty() string {
	switch o.Kind() {
	case 'i':
		return strconv.FormatInt(o.Int(), 10)
	case 'f':
		f := o.Float()
		return fmt.Sprintf("%s(float %#x)", strconv.FormatFloat(f, 'g', -1, 64), math.Float64bits(f))
	case 's':
		return strconv.Quote(o.Str())
	}
	return string(o)
}

// LuaFloat spells a float as a Lua expression that denotes exactly it and
// does not depend on decimal->binary conversion (hex float literal).
func LuaFloat(f float64) string {
	switch {
	case f != f:
		return "(0/0)"
	case math.IsInf(f, 1):
		return "math.huge"
	case math.IsInf(f, -1):
		return "(-math.huge)"
	}
	neg := math.Signbit(f)
	if neg {
		f = -f
	}
	var s string
	if f == 0 {
		s = "0.0"
	} else {
		mant, exp := math.Frexp(f) // f = mant * 2^exp, mant in [0.5,1)
		m := uint64(mant * (1 << 53))
		s = fmt.Sprintf("0x%xp%d", m, exp-53)
	}
	if neg {
		return "(-" + s + ")"
	}
	return s
}

func LuaInt(i int64) string {
	if i == math.MinInt64 {
		return "math.mininteger"
	}
	if i < 0 {
		return "(" + strconv.FormatInt(i, 10) + ")"
	}
	return strconv.FormatInt(i, 10)
}

func LuaString(s string) string {
	var sb strings.Builder
	sb.WriteByte('"')
	for i := 0; i < len(s); i++ {
		c := s[i]
		switch {
		case c == '"' || c == '\\':
			sb.WriteByte('\\')
			sb.WriteByte(c)
		case c >= 32 && c < 127:
			sb.WriteByte(c)
		default:
			fmt.Fprintf(&sb, "\\%03d", c)
		}
	}
	sb.WriteByte('"')
	return sb.String()
}

// lua spells the operand as a Lua source expression.
func (o Opnd) Lua() string {
	switch o.Kind() {
	case 'i':
		return LuaInt(o.Int())
	case 'f':
		return LuaFloat(o.Float())
	case 's':
		return LuaString(o.Str())
	case 't':
		return "{}"
	}
	return string(o)
}

// EncNum encodes a model number like harness.Canon does for golua values.
func EncNum(n numref.Num) string {
	if n.IsInt {
		return "i:" + strconv.FormatInt(n.I, 10)
	}
	if n.F != n.F {
		return "f:nan"
	}
	return "f:" + strconv.FormatUint(math.Float64bits(n.F), 16) + "(" + strconv.FormatFloat(n.F, 'g', -1, 64) + ")"
}
