// Package pbt holds what every property check shares: a rapid runner that
// turns a falsified property into a recorded violation with a replay file, and
// the known-finding protocol.
package pbt

import (
	"flag"
	"fmt"
	"os"
	"runtime/debug"
	"strconv"
	"strings"
	"sync"
	"testing"

	"pgregory.net/rapid"

	"verif/internal/ev"
)

// capTB is a rapid.TB that captures output instead of failing a testing.T, so
// that a failing property becomes a recorded violation with a replay file.
type capTB struct {
	mu     sync.Mutex
	name   string
	log    strings.Builder
	failed bool
}

type failNow struct{}

func (c *capTB) Helper()      {}
func (c *capTB) Name() string { return c.name }
func (c *capTB) Logf(format string, args ...any) {
	c.mu.Lock()
	if c.log.Len() < 1<<16 {
		fmt.Fprintf(&c.log, format+"\n", args...)
	}
	c.mu.Unlock()
}
func (c *capTB) Log(args ...any)                   { c.Logf("%s", fmt.Sprint(args...)) }
func (c *capTB) Skipf(format string, args ...any)  { panic("skip outside property") }
func (c *capTB) Skip(args ...any)                  { panic("skip outside property") }
func (c *capTB) SkipNow()                          { panic("skip outside property") }
func (c *capTB) Errorf(format string, args ...any) { c.Logf(format, args...); c.failed = true }
func (c *capTB) Error(args ...any)                 { c.Log(args...); c.failed = true }
func (c *capTB) Fatalf(format string, args ...any) { c.Errorf(format, args...); panic(failNow{}) }
func (c *capTB) Fatal(args ...any)                 { c.Error(args...); panic(failNow{}) }
func (c *capTB) FailNow()                          { c.failed = true; panic(failNow{}) }
func (c *capTB) Fail()                             { c.failed = true }
func (c *capTB) Failed() bool                      { return c.failed }

// failure is what a property stores just before failing, so that the last
// stored one (rapid re-runs the minimal case last) becomes the replay.
type failure struct {
	kind string
	c    any
	msg  string
}

var (
	lastFailMu sync.Mutex
	lastFail   *failure
)

// ShrinkTime, when set, overrides rapid's shrinking budget (checks that have
// their own structural reducer set it very low).
var ShrinkTime string

// FailCase records the failing case and fails the rapid test.
func FailCase(t *rapid.T, kind string, c any, format string, args ...any) {
	msg := fmt.Sprintf(format, args...)
	lastFailMu.Lock()
	lastFail = &failure{kind: kind, c: c, msg: msg}
	lastFailMu.Unlock()
	t.Fatalf("%s", msg)
}

// RunRapid runs prop for `checks` cases with a seed derived from the
// recorder (VERIF_SEED, shard, stream). A failure is shrunk by rapid and
// recorded as a violation with a replay file. Returns true if prop held.
func RunRapid(rec *ev.Recorder, name string, checks int, stream int, prop func(*rapid.T)) bool {
	flag.Set("rapid.checks", strconv.Itoa(checks))
	flag.Set("rapid.seed", strconv.FormatUint(rec.Seed(stream), 10))
	flag.Set("rapid.nofailfile", "true")
	switch {
	case ShrinkTime != "":
		flag.Set("rapid.shrinktime", ShrinkTime)
	case os.Getenv("VERIF_SHRINKTIME") != "":
		flag.Set("rapid.shrinktime", os.Getenv("VERIF_SHRINKTIME"))
	default:
		flag.Set("rapid.shrinktime", "20s")
	}
	lastFailMu.Lock()
	lastFail = nil
	lastFailMu.Unlock()
	tb := &capTB{name: name}
	func() {
		defer func() {
			if p := recover(); p != nil {
				if _, ok := p.(failNow); !ok {
					panic(p)
				}
			}
		}()
		rapid.Check(tb, prop)
	}()
	if !tb.failed {
		return true
	}
	lastFailMu.Lock()
	lf := lastFail
	lastFailMu.Unlock()
	if lf == nil {
		// failure without a recorded case: a panic in the property itself (harness bug)
		lf = &failure{kind: "harness", c: name, msg: "property failed without recording a case:\n" + tb.log.String()}
	}
	path := rec.Violation(lf.kind, lf.c, lf.msg)
	fmt.Printf("violation in %s: %s\nreplay: %s\n", name, lf.msg, path)
	return false
}

// Finish writes the partial evidence and fails the Go test if there were
// violations (the driver decides the exit code from the partial file). It must
// be deferred directly (`defer Finish(t, rec)`): a panic that escapes the test
// body (a Go panic out of golua, or a harness bug) is recorded as a violation
// instead of being lost.
func Finish(t *testing.T, rec *ev.Recorder) {
	if p := recover(); p != nil {
		msg := fmt.Sprintf("panic escaped the check: %v\n%s", p, debug.Stack())
		rec.Violation("panic", fmt.Sprint(p), msg)
		fmt.Println(msg)
	}
	rec.Finish()
	if n := rec.NViolations(); n > 0 {
		t.Errorf("%d violation(s)", n)
	}
}

// CheckKnown runs the demonstration of an open known finding; if it still
// fails the finding is reported as KNOWN-FINDING. stillFails must be a fixed
// input, independent of the generators.
func CheckKnown(rec *ev.Recorder, id string, stillFails func() bool) bool {
	if !ev.Open(id) {
		return false
	}
	if stillFails() {
		rec.Known(id, ev.What(id))
	}
	return true
}
