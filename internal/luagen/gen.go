// Package luagen generates well-defined MiniLua programs from rapid draws.
//
// Programs are built by construction (typed templates over a scope of
// variables with known coarse kinds), never by rejection. The discipline that
// keeps them inside behaviour the manual fully determines:
//   - at most one order-sensitive ("impure") member per expression list,
//     operator, constructor or assignment, and no read of a variable that this
//     member may write, because the manual leaves evaluation order open;
//   - no float→string conversion, no tostring of reference values, no
//     dependence on pairs order (only commutative accumulation), no length of
//     tables with holes, no equality of closures from one function expression;
//   - loops and recursion terminate by construction.
//
// The reference interpreter re-checks most of this dynamically and discards
// (never fails) a case that leaves the discipline.
package luagen

import (
	"fmt"
	"math"

	"pgregory.net/rapid"

	. "verif/internal/mlua"
)

type kind int

const (
	kInt kind = iota
	kFloat
	kStr
	kNumStr
	kBool
	kNil
	kArr  // sequence of integers
	kFunc // function with known signature
	kObj  // table with methods / metatable (see objInfo)
	kAny
)

type fnInfo struct {
	nparams int
	isVar   bool
	rets    []kind // kinds of results (fixed count), nil entries not allowed
	impure  bool   // emits, mutates or may raise
	writes  map[*variable]bool
	raises  bool // may raise an error: only called in statement position or under pcall
	yields  bool
}

type objInfo struct {
	fields      map[string]kind    // data fields
	methods     map[string]*fnInfo // obj:name(int...) methods
	arith       bool               // has __add/__sub/__mul/__unm/__eq/__lt/__le/__concat/__len returning ints/bools
	callable    bool               // __call(self, int) -> int
	logs        bool               // metamethods emit: each dispatch is an order-sensitive member
	methodTable bool               // __index is a table with get/add methods
}

type variable struct {
	name   string
	k      kind
	fn     *fnInfo
	obj    *objInfo
	depth  int  // function nesting depth where it was declared
	const_ bool // must not be assigned (loop variables, <const>, function names)
	global bool
}

type scope struct {
	vars   []*variable
	parent *scope
}

// Profile weights features.
type Profile struct {
	Name       string
	Coroutines int // weight of coroutine statements
	Errors     int
	Close      int
	Meta       int
	Closures   int
	Goto       int
	Varargs    int
	Strings    int
	MaxFuel    int
	MinFuel    int
}

var General = Profile{Name: "general", Coroutines: 2, Errors: 4, Close: 2, Meta: 4, Closures: 6, Goto: 3, Varargs: 4, Strings: 4, MinFuel: 12, MaxFuel: 60}

// ectx tracks order-sensitivity inside one statement.
type ectx struct {
	usedImpure bool
	writes     map[*variable]bool // variables the impure member may write
	reads      map[*variable]bool // variables read by the statement so far
}

func newEctx() *ectx { return &ectx{reads: map[*variable]bool{}} }

type gen struct {
	t         *rapid.T
	prof      Profile
	fuel      int
	sc        *scope
	nameN     int
	fdepth    int // function nesting depth
	loopDepth int
	inFn      *fnInfo // function being generated (to record writes)
	labelN    int
	noYield   bool
	coDepth   int // >0: inside a coroutine body
	varargOK  bool
	// Stats of generated features.
	Feat map[string]int
}

// Program is a generated program with the argument tuple for its main chunk.
type Program struct {
	Block []Stmt
	Args  []Arg
	Feat  map[string]int
}

// Arg is a main-chunk argument: one of int64, float64, string, bool, nil or
// ArgTable (a fresh table with the given integer items).
type Arg any
type ArgTable struct{ Items []int64 }

func (g *gen) n(k int, label string) int {
	if k <= 1 {
		return 0
	}
	return rapid.IntRange(0, k-1).Draw(g.t, label)
}

func (g *gen) chance(p int, label string) bool { return g.n(100, label) < p }

func (g *gen) feat(s string) { g.Feat[s]++ }

func (g *gen) fresh(prefix string) string {
	g.nameN++
	// occasionally reuse a short name to exercise shadowing
	return fmt.Sprintf("%s%d", prefix, g.nameN)
}

func (g *gen) push() { g.sc = &scope{parent: g.sc} }
func (g *gen) pop()  { g.sc = g.sc.parent }

func (g *gen) declare(name string, k kind) *variable {
	v := &variable{name: name, k: k, depth: g.fdepth}
	g.sc.vars = append(g.sc.vars, v)
	return v
}

// visible returns the variables of kind k, innermost first, skipping
// shadowed names.
func (g *gen) visible(pred func(*variable) bool) []*variable {
	seen := map[string]bool{}
	var out []*variable
	for s := g.sc; s != nil; s = s.parent {
		for i := len(s.vars) - 1; i >= 0; i-- {
			v := s.vars[i]
			if seen[v.name] {
				continue
			}
			seen[v.name] = true
			if pred(v) {
				out = append(out, v)
			}
		}
	}
	return out
}

func (g *gen) pickVar(k kind, c *ectx, label string) *variable {
	vs := g.visible(func(v *variable) bool {
		if v.k != k {
			return false
		}
		if c != nil && c.usedImpure && c.writes[v] {
			return false
		}
		return true
	})
	if len(vs) == 0 {
		return nil
	}
	v := vs[g.n(len(vs), label)]
	if c != nil {
		c.reads[v] = true
	}
	return v
}

// Generate draws a program.
func Generate(t *rapid.T, prof Profile) *Program {
	g := &gen{t: t, prof: prof, Feat: map[string]int{}, varargOK: true}
	g.fuel = rapid.IntRange(prof.MinFuel, prof.MaxFuel).Draw(t, "fuel")
	g.push()
	p := &Program{Feat: g.Feat}
	// main chunk arguments
	nargs := g.n(4, "nargs")
	var names []string
	for i := 0; i < nargs; i++ {
		name := g.fresh("a")
		names = append(names, name)
		switch g.n(6, "argkind") {
		case 0:
			p.Args = append(p.Args, g.intValue("argint"))
			g.declare(name, kInt)
		case 1:
			p.Args = append(p.Args, g.floatValue("argfloat"))
			g.declare(name, kFloat)
		case 2:
			p.Args = append(p.Args, g.strValue("argstr"))
			g.declare(name, kStr)
		case 3:
			p.Args = append(p.Args, []string{"10", "0x10", "1e1", " 5 ", "-3", "7"}[g.n(6, "argnumstr")])
			g.declare(name, kNumStr)
		case 4:
			p.Args = append(p.Args, g.chance(50, "argbool"))
			g.declare(name, kBool)
		default:
			n := g.n(4, "argtbllen")
			items := make([]int64, n)
			for j := range items {
				items[j] = int64(g.n(20, "argtblitem")) - 5
			}
			p.Args = append(p.Args, ArgTable{Items: items})
			g.declare(name, kArr)
		}
	}
	var block []Stmt
	if nargs > 0 {
		block = append(block, &Local{Names: names, Exprs: []Expr{&Vararg{}}})
		g.feat("vararg")
	}
	block = append(block, g.block(true)...)
	// final return
	if g.chance(70, "mainret") {
		c := newEctx()
		n := 1 + g.n(3, "nret")
		var es []Expr
		for i := 0; i < n; i++ {
			es = append(es, g.anyExpr(2, c))
		}
		block = append(block, &Return{Exprs: es})
	}
	p.Block = block
	return p
}

// ---------------------------------------------------------------- values

var edgeInts = []int64{0, 1, -1, 2, 3, 7, 10, 100, 255, 256, 65535, 1 << 31, 1<<53 - 1, 1 << 53, 1<<53 + 1, math.MaxInt64, math.MinInt64, math.MaxInt64 - 1, -(1 << 31), 1 << 62}

func (g *gen) intValue(label string) int64 {
	if g.n(5, label+"edge") == 0 {
		return edgeInts[g.n(len(edgeInts), label+"i")]
	}
	return int64(g.n(41, label)) - 20
}

var edgeFloats = []float64{0, math.Copysign(0, -1), 0.5, -0.5, 1, 1.5, 2.5, -3.75, 0.1, 1e15, 1e100, 1 << 53, 9223372036854775808.0, -9223372036854775808.0, math.Inf(1), math.Inf(-1), math.NaN(), 5e-324}

func (g *gen) floatValue(label string) float64 {
	if g.n(3, label+"edge") == 0 {
		return edgeFloats[g.n(len(edgeFloats), label+"i")]
	}
	return float64(g.n(81, label)-40) / 4
}

var strPool = []string{"", "a", "b", "ab", "abc", "hello", "x y", "A", "10", "-", "\n", "a\x00b", "\xff", "tab\t", "quote\"'", "\\", "]]", "é", "long string with several words"}

func (g *gen) strValue(label string) string {
	return strPool[g.n(len(strPool), label)]
}
