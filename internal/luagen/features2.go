package luagen

import (
	. "verif/internal/mlua"
)

// ---------------------------------------------------------------- errors

// errorValueExpr draws an error value expression and notes its kind.
func (g *gen) errorValueExpr(c *ectx) Expr {
	switch g.n(7, "errval-kind") {
	case 0, 1:
		return S([]string{"boom", "bad thing", "", "e:1"}[g.n(4, "errmsg")])
	case 2:
		return &Table{Items: []TItem{{NameKey: "code", Val: I(int64(g.n(100, "errcode")))}}}
	case 3:
		return I(int64(g.n(100, "errint")))
	case 4:
		return &Nil{}
	case 5:
		return lit(g.chance(50, "errbool"))
	default:
		return g.strExpr(1, c)
	}
}

// raiseStmts returns statements that raise an error in one of many ways.
func (g *gen) raiseStmts() []Stmt {
	c := newEctx()
	switch g.n(12, "raise-form") {
	case 0, 1, 2:
		g.feat("error(v)")
		return []Stmt{&CallStmt{Call: C(N("error"), g.errorValueExpr(c))}}
	case 3:
		g.feat("error-level")
		return []Stmt{&CallStmt{Call: C(N("error"), S("lvl"), I(int64(g.n(3, "errlevel"))))}}
	case 4:
		g.feat("runtime-error-site")
		x := g.fresh("nilv")
		return []Stmt{&Local{Names: []string{x}}, Emit(B("+", N(x), I(1)))}
	case 5:
		g.feat("runtime-error-site")
		x := g.fresh("nilv")
		return []Stmt{&Local{Names: []string{x}}, Emit(Field(N(x), "field"))}
	case 6:
		g.feat("runtime-error-site")
		x := g.fresh("nilv")
		return []Stmt{&Local{Names: []string{x}}, &CallStmt{Call: C(N(x), I(1))}}
	case 7:
		g.feat("runtime-error-site")
		return []Stmt{Emit(B("<", I(1), S("x")))}
	case 8:
		g.feat("runtime-error-site")
		return []Stmt{Emit(B("..", S("a"), &Table{}))}
	case 9:
		g.feat("assert")
		if g.chance(50, "assert-msg") {
			return []Stmt{&CallStmt{Call: C(N("assert"), &False{}, g.errorValueExpr(c))}}
		}
		return []Stmt{&CallStmt{Call: C(N("assert"), &Nil{})}}
	case 10:
		g.feat("runtime-error-site")
		x := g.fresh("k")
		return []Stmt{&NumFor{Var: x, Start: I(1), Limit: S("x"), Body: []Stmt{Emit(N(x))}}}
	default:
		g.feat("runtime-error-site")
		return []Stmt{Emit(B("//", I(1), I(0)))}
	}
}

// protectedBody builds a function body that does some work and then maybe
// raises.
func (g *gen) protectedBody(mustRaise bool) ([]Stmt, bool) {
	savedFn, savedLoop := g.inFn, g.loopDepth
	savedVar := g.varargOK
	g.varargOK = false // the body is a non-vararg function
	defer func() { g.varargOK = savedVar }()
	fi := &fnInfo{impure: true}
	g.inFn, g.loopDepth = fi, 0
	g.fdepth++
	g.push()
	var body []Stmt
	if g.fuel > 2 {
		body = append(body, g.nested()...)
	}
	raises := mustRaise || g.chance(70, "prot-raises")
	if raises {
		// raise from a nested call level sometimes
		if g.chance(40, "raise-nested") {
			inner := g.fresh("thrower")
			body = append(body, &LocalFunc{Name: inner, F: &Func{Params: []string{"x"}, Body: g.raiseStmts()}})
			if g.chance(50, "raise-nested-tail") {
				body = append(body, &Return{Exprs: []Expr{C(N(inner), I(1))}})
			} else {
				body = append(body, &CallStmt{Call: C(N(inner), I(1))}, Emit(S("unreachable")))
			}
		} else {
			body = append(body, g.raiseStmts()...)
			body = append(body, Emit(S("unreachable")))
		}
	} else {
		c := newEctx()
		body = append(body, &Return{Exprs: []Expr{g.intExpr(2, c), g.strExpr(1, c)}})
	}
	g.pop()
	g.fdepth--
	g.inFn, g.loopDepth = savedFn, savedLoop
	if savedFn != nil {
		savedFn.impure = true
		for v := range fi.writes {
			if v.depth < g.fdepth {
				if savedFn.writes == nil {
					savedFn.writes = map[*variable]bool{}
				}
				savedFn.writes[v] = true
			}
		}
	}
	return body, raises
}

func (g *gen) pcallStmt() []Stmt {
	g.feat("pcall")
	body, _ := g.protectedBody(false)
	ok, e, e2 := g.fresh("ok"), g.fresh("e"), g.fresh("r")
	g.declare(ok, kBool)
	g.declare(e, kAny)
	g.declare(e2, kAny)
	fn := &Func{Body: body}
	var st Stmt
	switch g.n(4, "pcall-form") {
	case 0, 1:
		st = &Local{Names: []string{ok, e, e2}, Exprs: []Expr{C(N("pcall"), fn)}}
	case 2:
		// xpcall with a handler that observes and transforms the error
		g.feat("xpcall")
		h := &Func{Params: []string{"m"}, Body: []Stmt{
			Emit(S("handler"), N("m")),
			&Return{Exprs: []Expr{&Table{Items: []TItem{{NameKey: "wrapped", Val: N("m")}}}}},
		}}
		st = &Local{Names: []string{ok, e, e2}, Exprs: []Expr{C(N("xpcall"), fn, h)}}
		return []Stmt{st, Emit(S("xpcall"), N(ok), C(N("type"), N(e)), &Paren{X: B("and", B("==", C(N("type"), N(e)), S("table")), Field(N(e), "wrapped"))}, N(e2))}
	default:
		// nested protected calls: the inner one catches, the outer sees success
		inner := g.fresh("ok")
		st = &Local{Names: []string{ok, e, e2}, Exprs: []Expr{C(N("pcall"), &Func{Body: []Stmt{
			&Local{Names: []string{inner, "ie"}, Exprs: []Expr{C(N("pcall"), fn)}},
			Emit(S("inner"), N(inner), N("ie")),
			&Return{Exprs: []Expr{S("outer-done"), N(inner)}},
		}})}}
	}
	out := []Stmt{st, Emit(S("pcall"), N(ok), N(e), N(e2))}
	// rethrow inside another pcall, value must be intact (tables by identity)
	if g.chance(25, "rethrow") {
		ok2, e3 := g.fresh("ok"), g.fresh("e")
		g.feat("rethrow")
		out = append(out,
			&Local{Names: []string{ok2, e3}, Exprs: []Expr{C(N("pcall"), N("error"), N(e), I(0))}},
			Emit(S("rethrown"), N(ok2), C(N("rawequal"), N(e), N(e3))),
		)
	}
	return out
}

// runtimeErrorStmt: an error inside a metamethod / iterator / nested function,
// caught by pcall; execution continues.
func (g *gen) runtimeErrorStmt() []Stmt {
	g.feat("error-in-callback")
	ok, e := g.fresh("ok"), g.fresh("e")
	g.declare(ok, kBool)
	g.declare(e, kAny)
	var fnBody []Stmt
	switch g.n(4, "rte-form") {
	case 0:
		// failing metamethod
		t := g.fresh("t")
		fnBody = []Stmt{
			&Local{Names: []string{t}, Exprs: []Expr{C(N("setmetatable"), &Table{}, &Table{Items: []TItem{
				{NameKey: "__add", Val: &Func{Params: []string{"a", "b"}, Body: g.raiseStmts()}},
				{NameKey: "__index", Val: &Func{Params: []string{"a", "k"}, Body: g.raiseStmts()}},
			}})}},
			Emit(S("before")),
			Emit([]Expr{B("+", N(t), I(1)), Field(N(t), "zz")}[g.n(2, "rte-meta-op")]),
		}
	case 1:
		// failing iterator
		x := g.fresh("x")
		fnBody = []Stmt{&GenFor{Names: []string{x}, Exprs: []Expr{&Func{Body: g.raiseStmts()}}, Body: []Stmt{Emit(N(x))}}}
	case 2:
		// error after partial table/variable updates: state must stay consistent
		t := g.pickVar(kArr, newEctx(), "rte-arr")
		if t != nil {
			g.noteWrite(t)
			fnBody = append(fnBody, &Assign{Targets: []Expr{Idx(N(t.name), B("+", U("#", N(t.name)), I(1)))}, Exprs: []Expr{I(99)}})
		}
		fnBody = append(fnBody, g.raiseStmts()...)
	default:
		// error through several Lua frames
		f1, f2 := g.fresh("lvl"), g.fresh("lvl")
		fnBody = []Stmt{
			&LocalFunc{Name: f1, F: &Func{Body: g.raiseStmts()}},
			&LocalFunc{Name: f2, F: &Func{Body: []Stmt{&CallStmt{Call: C(N(f1))}, Emit(S("unreachable"))}}},
			&CallStmt{Call: C(N(f2))},
		}
	}
	return []Stmt{
		&Local{Names: []string{ok, e}, Exprs: []Expr{C(N("pcall"), &Func{Body: fnBody})}},
		Emit(S("caught"), N(ok), N(e)),
	}
}

// ---------------------------------------------------------------- to-be-closed

// closerDecl returns `local <name> <close> = <value with __close that logs>`.
func (g *gen) closerExpr(id string, behaviour int) Expr {
	var body []Stmt
	body = append(body, Emit(S("close"), S(id), N("e")))
	switch behaviour {
	case 1:
		body = append(body, &CallStmt{Call: C(N("error"), S("close-err-"+id), I(0))})
	case 2:
		body = append(body, &CallStmt{Call: C(N("error"), &Table{Items: []TItem{{NameKey: "from", Val: S(id)}}})})
	}
	return C(N("setmetatable"), &Table{Items: []TItem{{NameKey: "id", Val: S(id)}}},
		&Table{Items: []TItem{{NameKey: "__close", Val: &Func{Params: []string{"self", "e"}, Body: body}}}})
}

func (g *gen) closeStmt() []Stmt {
	g.feat("to-be-closed")
	// the body may end up inside a (non-vararg) function literal
	savedVar := g.varargOK
	g.varargOK = false
	defer func() { g.varargOK = savedVar }()
	n := 1 + g.n(3, "close-n")
	var body []Stmt
	handlerRaises := false
	for i := 0; i < n; i++ {
		id := g.fresh("c")
		var val Expr
		switch g.n(8, "close-val") {
		case 0:
			val = &Nil{}
		case 1:
			val = &False{}
		case 2:
			val = g.closerExpr(id, 1+g.n(2, "close-bad"))
			g.feat("close-handler-raises")
			handlerRaises = true
		default:
			val = g.closerExpr(id, 0)
		}
		body = append(body, &Local{Names: []string{id}, Attribs: []string{"close"}, Exprs: []Expr{val}})
		if g.chance(40, "close-interleave") && g.fuel > 0 {
			body = append(body, g.emitStmt())
		}
	}
	// how the scope is left
	exit := g.n(8, "close-exit")
	wrapPcall := false
	switch exit {
	case 0, 1:
		body = append(body, Emit(S("end-of-block")))
	case 2:
		body = append(body, g.raiseStmts()...)
		wrapPcall = true
		g.feat("close-on-error")
	case 3:
		// return values are evaluated before the handlers run
		g.feat("close-on-return")
		fn := g.fresh("cf")
		body = append(body, &Return{Exprs: []Expr{S("ret"), I(int64(g.n(9, "close-ret")))}})
		return []Stmt{&LocalFunc{Name: fn, F: &Func{Body: body}}, Emit(S("returned"), C(N(fn)))}
	case 4:
		// return f(): the pending close disables the tail call, the handler runs after f returns
		g.feat("close-no-tail-call")
		fn, inner := g.fresh("cf"), g.fresh("in")
		body = append(body, &Return{Exprs: []Expr{C(N(inner))}})
		return []Stmt{
			&LocalFunc{Name: inner, F: &Func{Body: []Stmt{Emit(S("inner-runs")), &Return{Exprs: []Expr{S("from-inner")}}}}},
			&LocalFunc{Name: fn, F: &Func{Body: body}},
			Emit(S("returned"), C(N(fn))),
		}
	case 5:
		// break out of a loop
		g.feat("close-on-break")
		k := g.fresh("k")
		body = append(body, &If{Conds: []Expr{B(">=", N(k), I(int64(1+g.n(2, "close-break-at"))))}, Blocks: [][]Stmt{{&Break{}}}})
		return []Stmt{&NumFor{Var: k, Start: I(1), Limit: I(3), Body: body}, Emit(S("after-loop"))}
	case 6:
		// goto out of the block
		g.feat("close-on-goto")
		g.labelN++
		lbl := g.fresh("out")
		body = append(body, &Goto{Label: lbl})
		return []Stmt{&Do{Body: []Stmt{&Do{Body: body}, Emit(S("skipped")), &Label{Name: lbl}, Emit(S("after-goto"))}}}
	default:
		// non-closable value
		g.feat("close-non-closable")
		id := g.fresh("c")
		body = append(body, &Local{Names: []string{id}, Attribs: []string{"close"}, Exprs: []Expr{I(42)}}, Emit(S("unreachable")))
		wrapPcall = true
	}
	if wrapPcall || handlerRaises || g.chance(30, "close-pcall") {
		ok, e := g.fresh("ok"), g.fresh("e")
		g.declare(ok, kBool)
		g.declare(e, kAny)
		return []Stmt{
			&Local{Names: []string{ok, e}, Exprs: []Expr{C(N("pcall"), &Func{Body: body})}},
			Emit(S("closed-scope"), N(ok), N(e)),
		}
	}
	return []Stmt{&Do{Body: body}, Emit(S("after-do"))}
}

// ---------------------------------------------------------------- goto

func (g *gen) gotoStmt() []Stmt {
	g.feat("goto")
	switch g.n(4, "goto-form") {
	case 0:
		// continue
		k, lbl := g.fresh("k"), g.fresh("continue")
		g.push()
		g.declare(k, kInt).const_ = true
		g.loopDepth++
		inner := g.nested()
		g.loopDepth--
		g.pop()
		body := []Stmt{
			&If{Conds: []Expr{B("==", B("%", N(k), I(2)), I(int64(g.n(2, "goto-parity"))))}, Blocks: [][]Stmt{{&Goto{Label: lbl}}}},
		}
		// locals declared after the goto must not be jumped into: wrap them in a block
		body = append(body, &Do{Body: inner}, &Label{Name: lbl})
		return []Stmt{&NumFor{Var: k, Start: I(1), Limit: I(int64(2 + g.n(3, "goto-n"))), Body: body}}
	case 1:
		// backward goto as a loop, with a fresh local in every round captured by a closure
		i, top, fs := g.fresh("i"), g.fresh("top"), g.fresh("fs")
		x := g.fresh("x")
		n := int64(1 + g.n(3, "goto-rounds"))
		g.feat("goto-backward")
		return []Stmt{&Do{Body: []Stmt{
			&Local{Names: []string{i, fs}, Exprs: []Expr{I(0), &Table{}}},
			&Label{Name: top},
			&Do{Body: []Stmt{
				&Local{Names: []string{x}, Exprs: []Expr{B("*", N(i), I(10))}},
				&Assign{Targets: []Expr{Idx(N(fs), B("+", U("#", N(fs)), I(1)))}, Exprs: []Expr{&Func{Body: []Stmt{&Assign{Targets: []Expr{N(x)}, Exprs: []Expr{B("+", N(x), I(1))}}, &Return{Exprs: []Expr{N(x)}}}}}},
			}},
			&Assign{Targets: []Expr{N(i)}, Exprs: []Expr{B("+", N(i), I(1))}},
			&If{Conds: []Expr{B("<", N(i), I(n))}, Blocks: [][]Stmt{{&Goto{Label: top}}}},
			Emit(S("goto-loop"), N(i), C(Idx(N(fs), I(1))), C(Idx(N(fs), I(1))), C(Idx(N(fs), U("#", N(fs))))),
		}}}
	case 2:
		// jump out of two nested loops
		a, b, lbl := g.fresh("a"), g.fresh("b"), g.fresh("done")
		return []Stmt{&Do{Body: []Stmt{
			&NumFor{Var: a, Start: I(1), Limit: I(3), Body: []Stmt{
				&NumFor{Var: b, Start: I(1), Limit: I(3), Body: []Stmt{
					Emit(S("nest"), N(a), N(b)),
					&If{Conds: []Expr{B("==", B("*", N(a), N(b)), I(int64(1+g.n(6, "goto-prod"))))}, Blocks: [][]Stmt{{&Goto{Label: lbl}}}},
				}},
			}},
			Emit(S("not-jumped")),
			&Label{Name: lbl},
			Emit(S("after-nest")),
		}}}
	default:
		// forward goto over statements, label at the end of the block
		lbl := g.fresh("skip")
		return []Stmt{&Do{Body: []Stmt{
			&If{Conds: []Expr{g.boolExpr(2, newEctx())}, Blocks: [][]Stmt{{&Goto{Label: lbl}}}},
			Emit(S("not-skipped")),
			&Label{Name: lbl},
		}}}
	}
}

// ---------------------------------------------------------------- coroutines

func (g *gen) coroutineStmt() []Stmt {
	if g.coDepth > 1 {
		return []Stmt{g.emitStmt()}
	}
	g.feat("coroutine")
	co := g.fresh("co")
	c := newEctx()
	switch g.n(12, "co-form") {
	case 6:
		// yields from inside metamethods, an iterator function and a __close handler
		g.feat("yield-in-metamethod")
		yl := func() Expr { return Glob("coroutine", "yield") }
		mm := func(tag string, ret Expr) Expr {
			return &Func{Params: []string{"x", "y"}, Body: []Stmt{
				&Local{Names: []string{"got"}, Exprs: []Expr{C(yl(), S(tag))}},
				Emit(S("mm-resumed"), S(tag), N("got")),
				&Return{Exprs: []Expr{ret}},
			}}
		}
		obj, it := g.fresh("o"), g.fresh("it")
		return []Stmt{
			&Local{Names: []string{obj}, Exprs: []Expr{C(N("setmetatable"), &Table{}, &Table{Items: []TItem{
				{NameKey: "__index", Val: mm("index", S("from-index"))},
				{NameKey: "__add", Val: mm("add", I(40))},
				{NameKey: "__lt", Val: mm("lt", &True{})},
				{NameKey: "__concat", Val: mm("concat", S("cc"))},
				{NameKey: "__len", Val: mm("len", I(3))},
				{NameKey: "__call", Val: mm("call", S("called"))},
				{NameKey: "__eq", Val: mm("eq", &True{})},
				{NameKey: "__close", Val: mm("close", &Nil{})},
			}})}},
			&LocalFunc{Name: it, F: &Func{Params: []string{"s", "i"}, Body: []Stmt{
				&If{Conds: []Expr{B("<", N("i"), I(2))}, Blocks: [][]Stmt{{&Return{Exprs: []Expr{B("+", N("i"), I(1)), C(yl(), S("iter"))}}}}},
			}}},
			&Local{Names: []string{co}, Exprs: []Expr{C(Glob("coroutine", "wrap"), &Func{Body: []Stmt{
				Emit(S("index"), Idx(N(obj), S("k"))),
				Emit(S("add"), B("+", N(obj), I(1))),
				Emit(S("lt"), B("<", N(obj), N(obj))),
				Emit(S("concat"), B("..", N(obj), S("z"))),
				Emit(S("len"), U("#", N(obj))),
				Emit(S("call"), C(N(obj), I(1))),
				Emit(S("eq"), B("==", N(obj), C(N("setmetatable"), &Table{}, C(N("getmetatable"), N(obj))))),
				&GenFor{Names: []string{"i", "v"}, Exprs: []Expr{N(it), &Nil{}, I(0)}, Body: []Stmt{Emit(S("iter-body"), N("i"), N("v"))}},
				&Do{Body: []Stmt{&Local{Names: []string{"c"}, Attribs: []string{"close"}, Exprs: []Expr{N(obj)}}, Emit(S("in-block"))}},
				&Return{Exprs: []Expr{S("mm-done")}},
			}})}},
			&NumFor{Var: g.fresh("r"), Start: I(1), Limit: I(int64(8 + g.n(5, "mm-resumes"))), Body: []Stmt{
				Emit(S("mm-step"), C(N("pcall"), N(co), S("in"))),
			}},
		}
	case 7:
		// library functions as coroutine bodies; values (with nils) through resume/yield/return
		g.feat("coroutine-go-body")
		a, b2, c3 := g.fresh("co"), g.fresh("co"), g.fresh("co")
		return []Stmt{
			&Local{Names: []string{co}, Exprs: []Expr{C(Glob("coroutine", "create"), Glob("coroutine", "yield"))}},
			Emit(S("yield-body-1"), C(Glob("coroutine", "resume"), N(co), I(1), &Nil{}, I(3), &Nil{})),
			Emit(S("yield-body-2"), C(Glob("coroutine", "resume"), N(co), &Nil{}, S("x"), &Nil{})),
			Emit(S("yield-body-3"), C(Glob("coroutine", "resume"), N(co)), C(Glob("coroutine", "status"), N(co))),
			&Local{Names: []string{a}, Exprs: []Expr{C(Glob("coroutine", "wrap"), N("pcall"))}},
			Emit(S("pcall-body"), C(N(a), Glob("coroutine", "yield"), S("through-pcall"), &Nil{})),
			Emit(S("pcall-body-2"), C(N(a), S("back"), &Nil{}, &Nil{})),
			&Local{Names: []string{b2}, Exprs: []Expr{C(Glob("coroutine", "wrap"), &Func{IsVar: true, Body: []Stmt{
				&Return{Exprs: []Expr{C(N("select"), S("#"), &Vararg{}), C(Glob("coroutine", "yield"), &Vararg{})}},
			}})}},
			Emit(S("vararg-1"), C(N(b2), &Nil{}, &Nil{})),
			Emit(S("vararg-2"), C(N("select"), S("#"), C(N(b2), &Nil{}, I(2), &Nil{}))),
			&Local{Names: []string{c3}, Exprs: []Expr{C(Glob("coroutine", "create"), &Func{IsVar: true, Body: []Stmt{
				&Return{Exprs: []Expr{C(Glob("coroutine", "yield"), C(Glob("coroutine", "yield"), &Vararg{}))}},
			}})}},
			Emit(S("tail-1"), C(Glob("coroutine", "resume"), N(c3), I(int64(g.n(9, "tail-x"))), &Nil{})),
			Emit(S("tail-2"), C(Glob("coroutine", "resume"), N(c3), S("p"), S("q"))),
			Emit(S("tail-3"), C(Glob("coroutine", "resume"), N(c3))),
			Emit(S("tail-4"), C(Glob("coroutine", "resume"), N(c3)), C(Glob("coroutine", "status"), N(c3))),
		}
	case 8:
		// closing and resuming coroutines in every state, from inside and outside
		g.feat("coroutine-state-ops")
		outer := g.fresh("outer")
		return []Stmt{
			&Local{Names: []string{co, outer}},
			&Assign{Targets: []Expr{N(co)}, Exprs: []Expr{C(Glob("coroutine", "create"), &Func{Body: []Stmt{
				Emit(S("close-self"), C(N("pcall"), Glob("coroutine", "close"), N(co))),
				Emit(S("close-resumer"), C(N("pcall"), Glob("coroutine", "close"), N(outer))),
				Emit(S("wrap-self"), C(N("pcall"), C(Glob("coroutine", "wrap"), &Func{Body: []Stmt{&Return{Exprs: []Expr{C(Glob("coroutine", "resume"), N(co))}}}}))),
				&CallStmt{Call: C(Glob("coroutine", "yield"), S("y"))},
				&CallStmt{Call: C(N("error"), g.errorValueExpr(c))},
			}})}},
			&Assign{Targets: []Expr{N(outer)}, Exprs: []Expr{C(Glob("coroutine", "create"), &Func{Body: []Stmt{
				Emit(S("o-resume"), C(Glob("coroutine", "resume"), N(co))),
				Emit(S("o-status"), C(Glob("coroutine", "status"), N(co)), C(Glob("coroutine", "status"), N(outer))),
				Emit(S("o-yield"), C(Glob("coroutine", "yield"), S("oy"))),
				Emit(S("o-resume-2"), C(N("select"), I(1), C(Glob("coroutine", "resume"), N(co)))),
				Emit(S("o-close-dead"), C(N("select"), I(1), C(Glob("coroutine", "close"), N(co)))),
			}})}},
			Emit(S("m1"), C(Glob("coroutine", "resume"), N(outer))),
			Emit(S("m-close-suspended-outer?"), C(Glob("coroutine", "status"), N(outer))),
			Emit(S("m2"), C(Glob("coroutine", "resume"), N(outer), S("back"))),
			Emit(S("m3"), C(Glob("coroutine", "status"), N(outer)), C(Glob("coroutine", "status"), N(co))),
			Emit(S("m4"), C(N("pcall"), Glob("coroutine", "close"), C(Glob("coroutine", "running")))),
			Emit(S("m5"), C(N("pcall"), Glob("coroutine", "resume"), C(Glob("coroutine", "running")))),
			Emit(S("m6"), C(N("pcall"), Glob("coroutine", "wrap"), I(1))),
			Emit(S("m7"), C(N("pcall"), Glob("coroutine", "status"), S("x"))),
		}
	case 9:
		// a coroutine used as a for-in iterator, with an early break and a to-be-closed 4th value
		g.feat("coroutine-iterator")
		n := int64(2 + g.n(4, "iter-n"))
		stop := int64(1 + g.n(int(n)+1, "iter-stop"))
		gen := g.fresh("gen")
		return []Stmt{
			&LocalFunc{Name: gen, F: &Func{Params: []string{"n"}, Body: []Stmt{
				&Return{Exprs: []Expr{C(Glob("coroutine", "wrap"), &Func{Body: []Stmt{
					&NumFor{Var: "i", Start: I(1), Limit: N("n"), Body: []Stmt{&CallStmt{Call: C(Glob("coroutine", "yield"), N("i"), B("*", N("i"), N("i")))}}},
				}})}},
			}}},
			&GenFor{Names: []string{"i", "sq"}, Exprs: []Expr{C(N(gen), I(n))}, Body: []Stmt{
				Emit(S("it"), N("i"), N("sq")),
				&If{Conds: []Expr{B("==", N("i"), I(stop))}, Blocks: [][]Stmt{{&Break{}}}},
			}},
			&GenFor{Names: []string{"i"}, Exprs: []Expr{C(N(gen), I(n)), &Nil{}, &Nil{}, g.closerExpr(g.fresh("c"), 0)}, Body: []Stmt{
				&GenFor{Names: []string{"j"}, Exprs: []Expr{C(N(gen), N("i"))}, Body: []Stmt{Emit(S("nested"), N("i"), N("j"))}},
			}},
			Emit(S("after-iter")),
		}
	case 10:
		// error values of every type cross resume and wrap; errors inside nested coroutines
		g.feat("coroutine-error-values")
		w := g.fresh("w")
		return []Stmt{
			&Local{Names: []string{co}, Exprs: []Expr{C(Glob("coroutine", "create"), &Func{Params: []string{"e"}, Body: []Stmt{&CallStmt{Call: C(N("error"), N("e"), I(0))}}})}},
			Emit(S("err-nil"), C(Glob("coroutine", "resume"), C(Glob("coroutine", "create"), &Func{Body: []Stmt{&CallStmt{Call: C(N("error"))}}}))),
			Emit(S("err-val"), C(Glob("coroutine", "resume"), N(co), g.errorValueExpr(c))),
			Emit(S("err-dead"), C(Glob("coroutine", "resume"), N(co))),
			&Local{Names: []string{w}, Exprs: []Expr{C(Glob("coroutine", "wrap"), &Func{Body: []Stmt{
				&Local{Names: []string{"inner"}, Exprs: []Expr{C(Glob("coroutine", "wrap"), &Func{Body: []Stmt{
					&CallStmt{Call: C(Glob("coroutine", "yield"), I(1))},
					&CallStmt{Call: C(N("error"), &Table{Items: []TItem{{NameKey: "tag", Val: S("inner-err")}}})},
				}})}},
				Emit(S("inner-1"), C(N("inner"))),
				&CallStmt{Call: C(Glob("coroutine", "yield"), S("mid"))},
				Emit(S("inner-2"), C(N("pcall"), N("inner"))),
				Emit(S("inner-3"), C(N("select"), I(1), C(N("pcall"), N("inner")))),
				&CallStmt{Call: C(N("inner"))},
			}})}},
			Emit(S("w1"), C(N(w))),
			Emit(S("w2"), C(N("select"), I(1), C(N("pcall"), N(w)))),
			Emit(S("w3"), C(N("select"), I(1), C(N("pcall"), N(w)))),
		}
	case 11:
		// many coroutines alive at once, resumed round-robin; some abandoned while suspended
		g.feat("coroutine-many")
		n := int64(2 + g.n(5, "many-n"))
		rounds := int64(1 + g.n(4, "many-rounds"))
		cos := g.fresh("cos")
		return []Stmt{
			&Local{Names: []string{cos}, Exprs: []Expr{&Table{}}},
			&NumFor{Var: "i", Start: I(1), Limit: I(n), Body: []Stmt{
				&Assign{Targets: []Expr{Idx(N(cos), N("i"))}, Exprs: []Expr{C(Glob("coroutine", "create"), &Func{Params: []string{"x"}, Body: []Stmt{
					&While{Cond: B("<", N("x"), B("*", N("i"), I(3))), Body: []Stmt{
						&Assign{Targets: []Expr{N("x")}, Exprs: []Expr{B("+", N("x"), C(Glob("coroutine", "yield"), N("i"), N("x")))}},
					}},
					&Return{Exprs: []Expr{S("done"), N("i")}},
				}})}},
			}},
			&NumFor{Var: "r", Start: I(1), Limit: I(rounds), Body: []Stmt{
				&NumFor{Var: "i", Start: I(1), Limit: I(n), Body: []Stmt{
					Emit(S("rr"), N("r"), N("i"), C(Glob("coroutine", "resume"), Idx(N(cos), N("i")), N("r"))),
				}},
			}},
			&NumFor{Var: "i", Start: I(1), Limit: I(n), Body: []Stmt{
				Emit(S("final"), N("i"), C(Glob("coroutine", "status"), Idx(N(cos), N("i")))),
			}},
		}
	case 0:
		// generator: yields a sequence, values pass both ways
		n := int64(g.n(4, "co-n"))
		k, got := g.fresh("k"), g.fresh("got")
		body := []Stmt{
			Emit(S("co-start"), N("a"), N("b")),
			&NumFor{Var: k, Start: I(1), Limit: I(n), Body: []Stmt{
				&Local{Names: []string{got}, Exprs: []Expr{C(Glob("coroutine", "yield"), N(k), B("*", N(k), N("a")))}},
				Emit(S("co-got"), N(got)),
			}},
			&Return{Exprs: []Expr{S("co-done"), N("b")}},
		}
		out := []Stmt{&Local{Names: []string{co}, Exprs: []Expr{C(Glob("coroutine", "create"), &Func{Params: []string{"a", "b"}, Body: body})}}}
		out = append(out, Emit(S("status0"), C(Glob("coroutine", "status"), N(co))))
		r := g.fresh("r")
		out = append(out, &NumFor{Var: r, Start: I(1), Limit: I(n + 2), Body: []Stmt{
			Emit(S("resume"), N(r), C(Glob("coroutine", "resume"), N(co), B("+", N(r), I(10)), g.intLeaf(c))),
			Emit(S("status"), C(Glob("coroutine", "status"), N(co))),
		}})
		return out
	case 1:
		// wrap
		g.feat("coroutine.wrap")
		n := int64(1 + g.n(3, "wrap-n"))
		k := g.fresh("k")
		return []Stmt{
			&Local{Names: []string{co}, Exprs: []Expr{C(Glob("coroutine", "wrap"), &Func{Params: []string{"x"}, Body: []Stmt{
				&NumFor{Var: k, Start: I(1), Limit: I(n), Body: []Stmt{
					&Assign{Targets: []Expr{N("x")}, Exprs: []Expr{B("+", &Paren{X: B("or", C(Glob("coroutine", "yield"), B("*", N("x"), N(k))), I(0))}, I(1))}},
				}},
				&Return{Exprs: []Expr{S("wrap-done"), N("x")}},
			}})}},
			Emit(S("wrap1"), C(N(co), I(int64(g.n(5, "wrap-x"))))),
			Emit(S("wrap2"), C(N(co), I(5))),
			Emit(S("wrap3"), C(N("pcall"), N(co), I(6))),
			Emit(S("wrap4"), C(N("pcall"), N(co), I(7))),
		}
	case 2:
		// error inside a coroutine is delivered to the resumer; the coroutine is dead
		g.feat("coroutine-error")
		body := append([]Stmt{&CallStmt{Call: C(Glob("coroutine", "yield"), I(1))}}, g.raiseStmts()...)
		return []Stmt{
			&Local{Names: []string{co}, Exprs: []Expr{C(Glob("coroutine", "create"), &Func{Body: body})}},
			Emit(S("r1"), C(Glob("coroutine", "resume"), N(co))),
			Emit(S("r2"), C(Glob("coroutine", "resume"), N(co))),
			Emit(S("st"), C(Glob("coroutine", "status"), N(co))),
			Emit(S("r3"), C(N("select"), I(1), C(Glob("coroutine", "resume"), N(co)))),
		}
	case 3:
		// yield across pcall and from a nested function; isyieldable / running
		g.feat("yield-across-pcall")
		helper := g.fresh("yl")
		return []Stmt{
			&LocalFunc{Name: helper, F: &Func{Params: []string{"v"}, Body: []Stmt{&Return{Exprs: []Expr{C(Glob("coroutine", "yield"), N("v"))}}}}},
			&Local{Names: []string{co}, Exprs: []Expr{C(Glob("coroutine", "create"), &Func{Body: []Stmt{
				Emit(S("inside"), C(Glob("coroutine", "isyieldable")), C(N("select"), I(2), C(Glob("coroutine", "running")))),
				&Local{Names: []string{"ok", "v"}, Exprs: []Expr{C(N("pcall"), N(helper), S("y1"))}},
				Emit(S("after-yield-in-pcall"), N("ok"), N("v")),
				&Local{Names: []string{"ok2", "e2"}, Exprs: []Expr{C(N("pcall"), &Func{Body: []Stmt{
					&CallStmt{Call: C(N(helper), S("y2"))},
					&CallStmt{Call: C(N("error"), &Table{Items: []TItem{{NameKey: "tag", Val: S("after-y2")}}})},
				}})}},
				Emit(S("pcall-after-yield"), N("ok2"), C(N("type"), N("e2"))),
				&Return{Exprs: []Expr{S("fin")}},
			}})}},
			Emit(S("outside"), C(Glob("coroutine", "isyieldable")), C(N("select"), I(2), C(Glob("coroutine", "running")))),
			Emit(S("a"), C(Glob("coroutine", "resume"), N(co))),
			Emit(S("b"), C(Glob("coroutine", "resume"), N(co), S("sent1"))),
			Emit(S("c"), C(Glob("coroutine", "resume"), N(co), S("sent2"))),
			Emit(S("d"), C(Glob("coroutine", "status"), N(co))),
		}
	case 4:
		// nested coroutines: statuses normal/running seen from inside; resume self / resumer fails
		g.feat("nested-coroutines")
		outer, inner := g.fresh("outer"), g.fresh("inner")
		return []Stmt{
			&Local{Names: []string{outer, inner}},
			&Assign{Targets: []Expr{N(inner)}, Exprs: []Expr{C(Glob("coroutine", "create"), &Func{Body: []Stmt{
				Emit(S("inner-sees"), C(Glob("coroutine", "status"), N(outer)), C(Glob("coroutine", "status"), N(inner))),
				Emit(S("resume-normal"), C(N("select"), I(1), C(Glob("coroutine", "resume"), N(outer)))),
				Emit(S("resume-self"), C(N("select"), I(1), C(Glob("coroutine", "resume"), N(inner)))),
				&CallStmt{Call: C(Glob("coroutine", "yield"), S("inner-y"))},
				&Return{Exprs: []Expr{S("inner-ret")}},
			}})}},
			&Assign{Targets: []Expr{N(outer)}, Exprs: []Expr{C(Glob("coroutine", "create"), &Func{Body: []Stmt{
				Emit(S("o1"), C(Glob("coroutine", "resume"), N(inner))),
				&CallStmt{Call: C(Glob("coroutine", "yield"), S("outer-y"))},
				Emit(S("o2"), C(Glob("coroutine", "resume"), N(inner))),
				Emit(S("o3"), C(Glob("coroutine", "resume"), N(inner))),
			}})}},
			Emit(S("m1"), C(Glob("coroutine", "resume"), N(outer))),
			Emit(S("m2"), C(Glob("coroutine", "resume"), N(outer))),
			Emit(S("m3"), C(Glob("coroutine", "status"), N(outer)), C(Glob("coroutine", "status"), N(inner))),
		}
	default:
		// close: a suspended coroutine with pending to-be-closed variables; close of a fresh / dead one
		g.feat("coroutine.close")
		id1, id2 := g.fresh("c"), g.fresh("c")
		bad := g.n(3, "co-close-bad") // 0: fine, 1..2: a handler raises
		b1 := 0
		if bad > 0 {
			b1 = bad
		}
		out := []Stmt{
			&Local{Names: []string{co}, Exprs: []Expr{C(Glob("coroutine", "create"), &Func{Body: []Stmt{
				&Local{Names: []string{id1}, Attribs: []string{"close"}, Exprs: []Expr{g.closerExpr(id1, 0)}},
				&Local{Names: []string{id2}, Attribs: []string{"close"}, Exprs: []Expr{g.closerExpr(id2, b1)}},
				&CallStmt{Call: C(Glob("coroutine", "yield"), S("suspended-with-tbc"))},
				Emit(S("unreachable")),
			}})}},
			Emit(S("fresh-close"), C(Glob("coroutine", "close"), C(Glob("coroutine", "create"), &Func{}))),
			Emit(S("start"), C(Glob("coroutine", "resume"), N(co))),
			Emit(S("close"), C(Glob("coroutine", "close"), N(co))),
			Emit(S("status"), C(Glob("coroutine", "status"), N(co))),
		}
		if bad == 0 {
			// (what a second close of a coroutine whose close failed returns is
			// not specified: the model would discard the whole program)
			out = append(out, Emit(S("close-again"), C(Glob("coroutine", "close"), N(co))))
		}
		return append(out, Emit(S("resume-dead"), C(N("select"), I(1), C(Glob("coroutine", "resume"), N(co)))))
	}
}
