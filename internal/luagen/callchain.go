package luagen

import (
	. "verif/internal/mlua"
)

// callChainStmt: a value whose __call metamethod is itself a non-function
// with a __call metamethod (depth 1..3), called in every way a value can be
// called: by call syntax, through pcall/xpcall/select (the host calls it), as
// a metamethod handler, as an iterator, as a method, as a close handler. At
// each step the manual puts the called value in front of the arguments, so
// the function at the end of the chain sees the innermost object first and the
// outermost last before the original arguments.
func (g *gen) callChainStmt() []Stmt {
	g.feat("call-chain")
	tg, h := g.fresh("tg"), g.fresh("h")
	depth := 1 + g.n(3, "chain-depth")
	if depth >= 2 {
		g.feat("call-chain-depth>=2")
	}
	x := func(n string) Expr { return C(N(tg), N(n)) }
	body := []Stmt{
		// tags instead of the tables themselves
		&LocalFunc{Name: tg, F: &Func{Params: []string{"x"}, Body: []Stmt{
			&If{Conds: []Expr{B("==", C(N("type"), N("x")), S("table"))}, Blocks: [][]Stmt{{&Return{Exprs: []Expr{Field(N("x"), "tag")}}}}},
			&Return{Exprs: []Expr{N("x")}},
		}}},
		&LocalFunc{Name: h, F: &Func{Params: []string{"a", "b", "c", "d", "e"}, IsVar: true, Body: []Stmt{
			Emit(S("chain-end"), x("a"), x("b"), x("c"), x("d"), x("e"), C(N("select"), S("#"), &Vararg{})),
			&Return{Exprs: []Expr{x("a"), x("b")}},
		}}},
	}
	prev := h
	var top string
	for i := 1; i <= depth; i++ {
		top = g.fresh("link")
		body = append(body, &Local{Names: []string{top}, Exprs: []Expr{C(N("setmetatable"),
			&Table{Items: []TItem{{NameKey: "tag", Val: S(top)}}},
			&Table{Items: []TItem{{NameKey: "__call", Val: N(prev)}}})}})
		prev = top
	}
	obj := func(mm string) Expr {
		return C(N("setmetatable"), &Table{Items: []TItem{{NameKey: "tag", Val: S("operand")}}}, &Table{Items: []TItem{{NameKey: mm, Val: N(top)}}})
	}
	n := 1 + g.n(3, "chain-uses")
	for i := 0; i < n; i++ {
		switch g.n(12, "chain-form") {
		case 0:
			body = append(body, Emit(S("direct"), C(N(top), I(10), I(20))))
		case 1:
			body = append(body, Emit(S("pcall"), C(N("pcall"), N(top), I(10), I(20))))
		case 2:
			body = append(body, Emit(S("xpcall"), C(N("xpcall"), N(top), N("tostring"), I(10))))
		case 3:
			op := []string{"+", "..", "//", "&", "<", "<="}[g.n(6, "chain-op")]
			body = append(body, Emit(S("operator"), S(op), B(op, obj(map[string]string{"+": "__add", "..": "__concat", "//": "__idiv", "&": "__band", "<": "__lt", "<=": "__le"}[op]), I(5))))
		case 4:
			// (no unary operators here: whether their handler also gets a dummy
			// second operand is not settled by the manual)
			body = append(body, Emit(S("no-args"), C(N(top))), Emit(S("many-args"), C(N(top), I(1), I(2), I(3), I(4), I(5), I(6))))
		case 5:
			body = append(body, &GenFor{Names: []string{"v"}, Exprs: []Expr{N(top), I(1), I(2)}, Body: []Stmt{Emit(S("iteration"), N("v")), &Break{}}})
		case 6:
			body = append(body, Emit(S("select"), C(N("select"), I(2), C(N(top), I(1), I(2)))))
		case 7:
			body = append(body, Emit(S("method"), &MethCall{Obj: &Paren{X: &Table{Items: []TItem{{NameKey: "f", Val: N(top)}, {NameKey: "tag", Val: S("receiver")}}}}, Name: "f", Args: []Expr{I(3)}}))
		case 8:
			body = append(body, &Do{Body: []Stmt{
				&Local{Names: []string{"cv"}, Attribs: []string{"close"}, Exprs: []Expr{obj("__close")}},
				Emit(S("in-close-scope")),
			}})
		case 9:
			body = append(body, Emit(S("index-function"), Field(C(N("setmetatable"), &Table{Items: []TItem{{NameKey: "tag", Val: S("operand")}}}, &Table{Items: []TItem{{NameKey: "__index", Val: &Func{Params: []string{"t", "k"}, Body: []Stmt{&Return{Exprs: []Expr{C(N(top), N("t"), N("k"))}}}}}}}), "key")))
		case 10:
			body = append(body, Emit(S("in-coroutine"), C(C(Glob("coroutine", "wrap"), &Func{IsVar: true, Body: []Stmt{&Return{Exprs: []Expr{C(N("pcall"), N(top), &Vararg{})}}}}), I(7), I(8))))
		default:
			body = append(body, Emit(S("eq"), B("==", obj("__eq"), obj("__eq"))))
		}
	}
	return []Stmt{&Do{Body: body}}
}
