package luagen

import (
	"fmt"
	"strings"

	. "verif/internal/mlua"
)

// Coroutine script actions (for the body of coroutine X whose peer is P).
const (
	caYield = iota
	caResumePeer
	caResumeSelf
	caStatus
	caError
	caClosePeer
	caPcallYield
	caDeclareTBC
	caWrapPeer
	caPcallTbcYield
	caDeclareTBCCo
	caDeclareTBCYield
	caNumActions
)

var coActionNames = []string{"yield", "resume-peer", "resume-self", "status", "error", "close-peer", "pcall-yield", "declare-tbc", "running", "yield-in-pcall-with-tbc", "declare-tbc-handler-uses-coroutines", "declare-tbc-handler-yields"}

func co(name string) Expr { return Glob("coroutine", name) }

func coAction(a int, x, p string, n int) []Stmt {
	tag := func(s string) Expr { return S(fmt.Sprintf("%s-%s%d", x, s, n)) }
	switch a {
	case caYield:
		return []Stmt{Emit(tag("got"), C(co("yield"), tag("y")))}
	case caResumePeer:
		return []Stmt{Emit(tag("resumes-peer"), C(co("resume"), N(p), tag("to-peer")))}
	case caResumeSelf:
		return []Stmt{Emit(tag("resumes-self"), C(N("select"), I(1), C(co("resume"), N(x))))}
	case caStatus:
		return []Stmt{Emit(tag("sees"), C(co("status"), N(x)), C(co("status"), N(p)), C(co("isyieldable")))}
	case caError:
		return []Stmt{&CallStmt{Call: C(N("error"), &Table{Items: []TItem{{NameKey: "tag", Val: tag("err")}}})}}
	case caClosePeer:
		return []Stmt{Emit(tag("closes-peer"), C(N("select"), I(1), C(N("pcall"), co("close"), N(p))))}
	case caPcallYield:
		return []Stmt{Emit(tag("pcall-yield"), C(N("pcall"), co("yield"), tag("py")))}
	case caDeclareTBC:
		id := fmt.Sprintf("%s-c%d", x, n)
		return []Stmt{&Local{Names: []string{fmt.Sprintf("c%d", n)}, Attribs: []string{"close"}, Exprs: []Expr{gridCloser(id, ckPlain)}}}
	case caDeclareTBCCo:
		id := fmt.Sprintf("%s-cc%d", x, n)
		return []Stmt{&Local{Names: []string{fmt.Sprintf("cc%d", n)}, Attribs: []string{"close"}, Exprs: []Expr{gridCloser(id, ckCoroutine)}}}
	case caDeclareTBCYield:
		id := fmt.Sprintf("%s-cy%d", x, n)
		return []Stmt{&Local{Names: []string{fmt.Sprintf("cy%d", n)}, Attribs: []string{"close"}, Exprs: []Expr{gridCloser(id, ckYield)}}}
	case caWrapPeer:
		return []Stmt{Emit(tag("running"), C(N("select"), I(2), C(co("running"))), B("==", C(N("select"), I(1), C(co("running"))), N(x)))}
	case caPcallTbcYield:
		// suspended inside a protected call that has its own pending to-be-closed variable
		id := fmt.Sprintf("%s-pc%d", x, n)
		return []Stmt{Emit(tag("pcall-tbc-yield"), C(N("pcall"), &Func{Body: []Stmt{
			&Local{Names: []string{"pc"}, Attribs: []string{"close"}, Exprs: []Expr{gridCloser(id, ckPlain)}},
			&Return{Exprs: []Expr{C(co("yield"), tag("pty"))}},
		}}))}
	}
	panic("bad coroutine action")
}

// CoroutineScripts enumerates all scripts over two coroutines A and B whose
// bodies are sequences of at most maxLen actions, driven by a fixed main
// program that resumes, inspects and closes them in every state.
func CoroutineScripts(maxLen int) []GridCase { return CoroutineScriptsWhere(maxLen, nil) }

// CoroutineScriptsWhere builds only the scripts whose index keep accepts (the
// others are empty placeholders, so that indices stay those of the full grid):
// the 3-action grid is several GB of syntax trees when built completely.
func CoroutineScriptsWhere(maxLen int, keep func(i int) bool) []GridCase {
	var seqs [][]int
	var rec func(cur []int)
	rec = func(cur []int) {
		seqs = append(seqs, append([]int{}, cur...))
		if len(cur) == maxLen {
			return
		}
		for a := 0; a < caNumActions; a++ {
			if len(cur) > 0 && cur[len(cur)-1] == caError {
				continue // nothing runs after an error
			}
			rec(append(cur, a))
		}
	}
	rec(nil)
	body := func(x, p string, seq []int) *Func {
		var stmts []Stmt
		stmts = append(stmts, Emit(S(x+"-starts"), &Vararg{}))
		for i, a := range seq {
			stmts = append(stmts, coAction(a, x, p, i)...)
		}
		if len(seq) == 0 || seq[len(seq)-1] != caError {
			stmts = append(stmts, &Return{Exprs: []Expr{S(x + "-ret"), I(int64(len(seq)))}})
		}
		return &Func{IsVar: true, Body: stmts}
	}
	names := func(seq []int) string {
		var s []string
		for _, a := range seq {
			s = append(s, coActionNames[a])
		}
		return strings.Join(s, ",")
	}
	st := func(tag string) Stmt {
		return Emit(S(tag), C(co("status"), N("A")), C(co("status"), N("B")))
	}
	var out []GridCase
	for _, sa := range seqs {
		for _, sb := range seqs {
			if len(sb) > 2 {
				continue // B's body has at most two actions (A's up to maxLen): the product stays enumerable
			}
			if keep != nil && !keep(len(out)) {
				out = append(out, GridCase{})
				continue
			}
			block := []Stmt{
				&Local{Names: []string{"A", "B"}},
				&Assign{Targets: []Expr{N("A")}, Exprs: []Expr{C(co("create"), body("A", "B", sa))}},
				&Assign{Targets: []Expr{N("B")}, Exprs: []Expr{C(co("create"), body("B", "A", sb))}},
				st("s0"),
				Emit(S("m1"), C(co("resume"), N("A"), S("a1"), S("extra"))), st("s1"),
				Emit(S("m2"), C(co("resume"), N("B"), S("b1"))), st("s2"),
				Emit(S("m3"), C(co("resume"), N("A"), S("a2"))),
				Emit(S("m4"), C(co("resume"), N("B"), S("b2"))),
				Emit(S("m5"), C(co("resume"), N("A"), S("a3"))), st("s5"),
				Emit(S("main"), C(N("select"), I(2), C(co("running"))), C(co("isyieldable")), C(N("select"), I(1), C(N("pcall"), co("yield"), I(1)))),
				Emit(S("closeA"), C(N("select"), I(1), C(N("pcall"), co("close"), N("A")))),
				Emit(S("closeB"), C(N("select"), I(1), C(N("pcall"), co("close"), N("B")))), st("s6"),
				Emit(S("m6"), C(N("select"), I(1), C(co("resume"), N("A")))),
			}
			out = append(out, GridCase{Name: "A[" + names(sa) + "] B[" + names(sb) + "]", Block: block})
		}
	}
	return out
}
