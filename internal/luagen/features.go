package luagen

import (
	. "verif/internal/mlua"
)

// ---------------------------------------------------------------- functions

// funcBody generates a function body in a new function context. params are
// declared as integers. Returns the body and the function's signature.
func (g *gen) funcBody(params []string, isVar bool, rets []kind) ([]Stmt, *fnInfo) {
	fi := &fnInfo{nparams: len(params), isVar: isVar, rets: rets}
	savedFn, savedLoop, savedVar := g.inFn, g.loopDepth, g.varargOK
	g.inFn, g.loopDepth, g.varargOK = fi, 0, isVar
	g.fdepth++
	g.push()
	for _, p := range params {
		g.declare(p, kInt)
	}
	var body []Stmt
	if g.fuel > 3 && g.chance(60, "fn-body-stmts") {
		body = append(body, g.nested()...)
	}
	c := newEctx()
	var res []Expr
	for _, k := range rets {
		res = append(res, g.exprOfKind(k, 2, c))
	}
	if len(res) > 0 || g.chance(30, "bare-return") {
		body = append(body, &Return{Exprs: res})
	}
	g.pop()
	g.fdepth--
	g.inFn, g.loopDepth, g.varargOK = savedFn, savedLoop, savedVar
	// writes to variables of enclosing functions propagate outward
	if savedFn != nil {
		for v := range fi.writes {
			if v.depth < g.fdepth {
				if savedFn.writes == nil {
					savedFn.writes = map[*variable]bool{}
				}
				savedFn.writes[v] = true
			}
		}
	}
	return body, fi
}

func (g *gen) drawRets() []kind {
	switch g.n(6, "rets") {
	case 0:
		return nil
	case 1, 2:
		return []kind{kInt}
	case 3:
		return []kind{kInt, kInt}
	case 4:
		return []kind{kStr}
	default:
		return []kind{kInt, kStr, kInt}
	}
}

func (g *gen) funcDefStmt() []Stmt {
	np := g.n(4, "nparams")
	params := make([]string, np)
	for i := range params {
		params[i] = g.fresh("p")
	}
	name := g.fresh("f")
	rets := g.drawRets()
	g.feat("function-def")
	form := g.n(3, "fn-form")
	if form == 0 {
		// local function f: may refer to itself (not generated) — declared before the body
		v := g.declare(name, kFunc)
		v.const_ = true
		body, fi := g.funcBody(params, false, rets)
		v.fn = fi
		return []Stmt{&LocalFunc{Name: name, F: &Func{Params: params, Body: body}}}
	}
	body, fi := g.funcBody(params, false, rets)
	v := g.declare(name, kFunc)
	v.const_ = true
	v.fn = fi
	if form == 1 {
		return []Stmt{&Local{Names: []string{name}, Exprs: []Expr{&Func{Params: params, Body: body}}}}
	}
	// global function statement
	v.global = true
	g.feat("global-function")
	return []Stmt{&FuncStmt{Path: []string{name}, F: &Func{Params: params, Body: body}}}
}

// closureLoopStmt: closures created in a loop capture a fresh variable per
// iteration; they are called after the loop.
func (g *gen) closureLoopStmt() []Stmt {
	fs := g.fresh("fs")
	i, j := g.fresh("i"), g.fresh("j")
	n := int64(1 + g.n(3, "cl-n"))
	g.feat("closure-in-loop")
	c := newEctx()
	var loop Stmt
	inc := g.chance(50, "cl-mutate")
	var closureBody []Stmt
	if inc {
		// each closure has its own j: calling one does not affect the others
		closureBody = []Stmt{
			&Assign{Targets: []Expr{N(j)}, Exprs: []Expr{B("+", N(j), I(1))}},
			&Return{Exprs: []Expr{B("+", B("*", N(i), I(100)), N(j))}},
		}
	} else {
		closureBody = []Stmt{&Return{Exprs: []Expr{B("+", B("*", N(i), I(100)), N(j))}}}
	}
	mk := &Assign{Targets: []Expr{Idx(N(fs), B("+", U("#", N(fs)), I(1)))}, Exprs: []Expr{&Func{Body: closureBody}}}
	jinit := &Local{Names: []string{j}, Exprs: []Expr{B("*", N(i), g.intLeaf(c))}}
	switch g.n(7, "cl-loop") {
	case 3:
		// repeat loop: i is shared, the body's j is fresh per iteration and is
		// still in scope in the until-condition
		loop = &Do{Body: []Stmt{
			&Local{Names: []string{i}, Exprs: []Expr{I(1)}},
			&Repeat{Body: []Stmt{jinit, mk, &Assign{Targets: []Expr{N(i)}, Exprs: []Expr{B("+", N(i), I(1))}}},
				Cond: B("or", B(">", N(i), I(n)), B("~=", N(j), N(j)))},
		}}
	case 4:
		// loop made of a backward goto: every execution of the local statement
		// defines a new j
		top := g.fresh("top")
		loop = &Do{Body: []Stmt{
			&Local{Names: []string{i}, Exprs: []Expr{I(1)}},
			&Label{Name: top},
			jinit, mk,
			&Assign{Targets: []Expr{N(i)}, Exprs: []Expr{B("+", N(i), I(1))}},
			&If{Conds: []Expr{B("<=", N(i), I(n))}, Blocks: [][]Stmt{{&Goto{Label: top}}}},
		}}
	case 5:
		// nested loops: j is shared by the closures of one outer iteration, q is
		// fresh per inner iteration; the inner loop is a repeat or a while loop
		m, q := g.fresh("m"), g.fresh("q")
		body := []Stmt{&Return{Exprs: []Expr{B("+", B("+", B("*", N(i), I(100)), N(j)), N(q))}}}
		if inc {
			body = append([]Stmt{&Assign{Targets: []Expr{N(j), N(q)}, Exprs: []Expr{B("+", N(j), I(1)), B("+", N(q), I(1000))}}}, body...)
		}
		mk2 := &Assign{Targets: []Expr{Idx(N(fs), B("+", U("#", N(fs)), I(1)))}, Exprs: []Expr{&Func{Body: body}}}
		step := &Assign{Targets: []Expr{N(m)}, Exprs: []Expr{B("+", N(m), I(1))}}
		qinit := &Local{Names: []string{q}, Exprs: []Expr{B("*", N(m), I(10))}}
		var inner Stmt
		if g.chance(50, "cl-inner-repeat") {
			inner = &Repeat{Body: []Stmt{qinit, mk2, step}, Cond: B(">", B("+", N(m), B("-", N(q), N(q))), I(2))}
		} else {
			inner = &While{Cond: B("<=", N(m), I(2)), Body: []Stmt{qinit, mk2, step}}
		}
		loop = &NumFor{Var: i, Start: I(1), Limit: I(n), Body: []Stmt{jinit, &Local{Names: []string{m}, Exprs: []Expr{I(1)}}, inner}}
	case 6:
		// the captured local lives in a block nested in the loop body, and the
		// loop continues with a goto
		cont := g.fresh("cont")
		loop = &NumFor{Var: i, Start: I(1), Limit: I(n + 1), Body: []Stmt{
			&If{Conds: []Expr{B("==", N(i), I(2))}, Blocks: [][]Stmt{{&Goto{Label: cont}}}},
			&Do{Body: []Stmt{jinit, &If{Conds: []Expr{B(">", N(i), I(0))}, Blocks: [][]Stmt{{mk}}}}},
			&Label{Name: cont},
		}}
	case 0:
		loop = &NumFor{Var: i, Start: I(1), Limit: I(n), Body: []Stmt{jinit, mk}}
	case 1:
		// while loop: i is one variable shared by all closures, j is fresh
		loop = &Do{Body: []Stmt{
			&Local{Names: []string{i}, Exprs: []Expr{I(1)}},
			&While{Cond: B("<=", N(i), I(n)), Body: []Stmt{jinit, mk, &Assign{Targets: []Expr{N(i)}, Exprs: []Expr{B("+", N(i), I(1))}}}},
		}}
	default:
		x := g.fresh("x")
		loop = &GenFor{Names: []string{i, x}, Exprs: []Expr{C(N("ipairs"), &Table{Items: []TItem{{Val: I(5)}, {Val: I(6)}, {Val: I(7)}}})}, Body: []Stmt{
			&Local{Names: []string{j}, Exprs: []Expr{B("+", N(x), N(i))}}, mk,
		}}
	}
	out := []Stmt{&Local{Names: []string{fs}, Exprs: []Expr{&Table{}}}, loop}
	// call them, some twice, in a drawn order
	k := g.fresh("k")
	out = append(out, &NumFor{Var: k, Start: U("#", N(fs)), Limit: I(1), Step: I(-1), Body: []Stmt{
		Emit(S("closure"), N(k), C(Idx(N(fs), N(k))), C(Idx(N(fs), N(k)))),
	}})
	return out
}

func (g *gen) varargFuncStmt() []Stmt {
	name := g.fresh("va")
	g.feat("vararg-function")
	v := g.declare(name, kFunc)
	v.const_ = true
	np := g.n(2, "va-np")
	params := make([]string, np)
	for i := range params {
		params[i] = g.fresh("p")
	}
	a, b := g.fresh("x"), g.fresh("y")
	var body []Stmt
	body = append(body, &Local{Names: []string{a, b}, Exprs: []Expr{&Vararg{}}})
	body = append(body, Emit(S(name), C(N("select"), S("#"), &Vararg{}), N(a), N(b)))
	form := g.n(5, "va-form")
	var ret Stmt
	switch form {
	case 0:
		ret = &Return{Exprs: []Expr{&Vararg{}}}
	case 1:
		ret = &Return{Exprs: []Expr{C(N("select"), I(2), &Vararg{})}}
	case 2:
		t := g.fresh("t")
		body = append(body, &Local{Names: []string{t}, Exprs: []Expr{&Table{Items: []TItem{{Val: &Vararg{}}}}}})
		ret = &Return{Exprs: []Expr{U("#", N(t)), Idx(N(t), I(1))}}
	case 3:
		t := g.fresh("t")
		body = append(body, &Local{Names: []string{t}, Exprs: []Expr{C(Glob("table", "pack"), &Vararg{})}})
		ret = &Return{Exprs: []Expr{Field(N(t), "n"), &Paren{X: &Vararg{}}}}
	default:
		// varargs in the middle of a list are truncated to one value
		ret = &Return{Exprs: []Expr{&Vararg{}, S("end")}}
	}
	body = append(body, ret)
	v.fn = &fnInfo{nparams: np, isVar: true, impure: true, rets: nil}
	c := newEctx()
	nargs := g.n(5, "va-nargs")
	args := make([]Expr, nargs)
	for i := range args {
		args[i] = g.anyExpr(1, c)
	}
	// nil-valued trailing arguments count
	if g.chance(20, "va-trailing-nil") {
		args = append(args, &Nil{})
	}
	return []Stmt{
		&LocalFunc{Name: name, F: &Func{Params: params, IsVar: true, Body: body}},
		Emit(S("results"), C(N(name), args...)),
		Emit(S("count"), C(N("select"), S("#"), CloneExpr(C(N(name), args...)))),
	}
}

func (g *gen) recursionStmt() []Stmt {
	g.feat("recursion")
	name := g.fresh("rec")
	n := int64(g.n(12, "rec-n"))
	switch g.n(3, "rec-form") {
	case 0:
		// tail-recursive accumulator
		g.feat("tail-call")
		return []Stmt{
			&LocalFunc{Name: name, F: &Func{Params: []string{"n", "acc"}, Body: []Stmt{
				&If{Conds: []Expr{B("<=", N("n"), I(0))}, Blocks: [][]Stmt{{&Return{Exprs: []Expr{N("acc")}}}}},
				&Return{Exprs: []Expr{C(N(name), B("-", N("n"), I(1)), B("+", N("acc"), N("n")))}},
			}}},
			Emit(S("tailrec"), C(N(name), I(n*10), I(0))),
		}
	case 1:
		// fibonacci (two non-tail calls)
		return []Stmt{
			&LocalFunc{Name: name, F: &Func{Params: []string{"n"}, Body: []Stmt{
				&If{Conds: []Expr{B("<", N("n"), I(2))}, Blocks: [][]Stmt{{&Return{Exprs: []Expr{N("n")}}}}},
				&Return{Exprs: []Expr{B("+", C(N(name), B("-", N("n"), I(1))), C(N(name), B("-", N("n"), I(2))))}},
			}}},
			Emit(S("fib"), C(N(name), I(n))),
		}
	default:
		// mutual recursion through an upvalue declared before
		odd := g.fresh("odd")
		g.feat("tail-call")
		return []Stmt{
			&Local{Names: []string{odd}},
			&LocalFunc{Name: name, F: &Func{Params: []string{"n"}, Body: []Stmt{
				&If{Conds: []Expr{B("==", N("n"), I(0))}, Blocks: [][]Stmt{{&Return{Exprs: []Expr{&True{}}}}}},
				&Return{Exprs: []Expr{C(N(odd), B("-", N("n"), I(1)))}},
			}}},
			&Assign{Targets: []Expr{N(odd)}, Exprs: []Expr{&Func{Params: []string{"n"}, Body: []Stmt{
				&If{Conds: []Expr{B("==", N("n"), I(0))}, Blocks: [][]Stmt{{&Return{Exprs: []Expr{&False{}}}}}},
				&Return{Exprs: []Expr{C(N(name), B("-", N("n"), I(1)))}},
			}}}},
			Emit(S("even"), C(N(name), I(n)), C(N(odd), I(n))),
		}
	}
}

// ---------------------------------------------------------------- objects / metatables

func (g *gen) pickObj(c *ectx, pred func(*objInfo) bool) *variable {
	vs := g.visible(func(v *variable) bool {
		return v.k == kObj && v.obj != nil && pred(v.obj) && !(c != nil && c.usedImpure)
	})
	if len(vs) == 0 {
		return nil
	}
	v := vs[g.n(len(vs), "obj-pick")]
	if c != nil {
		c.reads[v] = true
	}
	return v
}

// objectStmt declares a "class" with a metatable and two instances.
func (g *gen) objectStmt() []Stmt {
	g.feat("metatable-object")
	mt, mk := g.fresh("MT"), g.fresh("new")
	a, b := g.fresh("o"), g.fresh("o")
	logs := g.chance(50, "meta-logs") // metamethods emit (then they are order-sensitive members)
	log := func(name string, args ...Expr) []Stmt {
		if !logs {
			return nil
		}
		return []Stmt{Emit(append([]Expr{S(name)}, args...)...)}
	}
	val := func(e Expr) Expr { return Field(e, "v") }
	binop := func(event, op string) TItem {
		body := append(log(event, val(N("x")), val(N("y"))), &Return{Exprs: []Expr{C(N(mk), B(op, val(N("x")), val(N("y"))))}})
		return TItem{NameKey: event, Val: &Func{Params: []string{"x", "y"}, Body: body}}
	}
	cmp := func(event, op string) TItem {
		body := append(log(event, val(N("x")), val(N("y"))), &Return{Exprs: []Expr{B(op, val(N("x")), val(N("y")))}})
		return TItem{NameKey: event, Val: &Func{Params: []string{"x", "y"}, Body: body}}
	}
	items := []TItem{
		binop("__add", "+"), binop("__sub", "-"), binop("__mul", "*"),
		cmp("__eq", "=="), cmp("__lt", "<"), cmp("__le", "<="),
		{NameKey: "__unm", Val: &Func{Params: []string{"x"}, Body: append(log("__unm", val(N("x"))), &Return{Exprs: []Expr{C(N(mk), U("-", val(N("x"))))}})}},
		{NameKey: "__len", Val: &Func{Params: []string{"x"}, Body: append(log("__len", val(N("x"))), &Return{Exprs: []Expr{val(N("x"))}})}},
		{NameKey: "__call", Val: &Func{Params: []string{"self", "d"}, Body: append(log("__call", val(N("self")), N("d")), &Return{Exprs: []Expr{B("+", val(N("self")), &Paren{X: B("or", N("d"), I(0))})}})}},
		{NameKey: "__concat", Val: &Func{Params: []string{"x", "y"}, Body: []Stmt{
			// operands may be strings/numbers or objects
			&Local{Names: []string{"l", "r"}, Exprs: []Expr{
				&Paren{X: B("or", B("and", B("==", C(N("type"), N("x")), S("table")), val(N("x"))), N("x"))},
				&Paren{X: B("or", B("and", B("==", C(N("type"), N("y")), S("table")), val(N("y"))), N("y"))}}},
			&Return{Exprs: []Expr{B("..", B("..", N("l"), S("|")), N("r"))}},
		}}},
		{NameKey: "__tostring", Val: &Func{Params: []string{"x"}, Body: []Stmt{&Return{Exprs: []Expr{B("..", S("obj:"), val(N("x")))}}}}},
	}
	// __index: a table of methods, or a function computing missing fields
	methods := &Table{Items: []TItem{
		{NameKey: "get", Val: &Func{Params: []string{"self"}, Body: []Stmt{&Return{Exprs: []Expr{val(N("self"))}}}}},
		{NameKey: "add", Val: &Func{Params: []string{"self", "d"}, Body: []Stmt{
			&Assign{Targets: []Expr{val(N("self"))}, Exprs: []Expr{B("+", val(N("self")), N("d"))}},
			&Return{Exprs: []Expr{N("self")}},
		}}},
	}}
	indexIsFunc := g.chance(30, "index-func")
	if indexIsFunc {
		items = append(items, TItem{NameKey: "__index", Val: &Func{Params: []string{"t", "k"}, Body: append(log("__index", N("k")), &Return{Exprs: []Expr{B("..", S("missing:"), C(N("tostring"), N("k")))}})}})
	} else {
		items = append(items, TItem{NameKey: "__index", Val: methods})
	}
	if g.chance(40, "newindex") {
		items = append(items, TItem{NameKey: "__newindex", Val: &Func{Params: []string{"t", "k", "x"}, Body: append(log("__newindex", N("k"), N("x")), &CallStmt{Call: C(N("rawset"), N("t"), N("k"), B("*", N("x"), I(2)))})}})
	}
	out := []Stmt{
		&Local{Names: []string{mt, mk}},
		&Assign{Targets: []Expr{N(mk)}, Exprs: []Expr{&Func{Params: []string{"v"}, Body: []Stmt{
			&Return{Exprs: []Expr{C(N("setmetatable"), &Table{Items: []TItem{{NameKey: "v", Val: N("v")}}}, N(mt))}},
		}}}},
		&Assign{Targets: []Expr{N(mt)}, Exprs: []Expr{&Table{Items: items}}},
		&Local{Names: []string{a, b}, Exprs: []Expr{C(N(mk), I(int64(g.n(9, "obj-a")))), C(N(mk), I(int64(g.n(9, "obj-b"))))}},
	}
	g.declare(mt, kAny).const_ = true
	mkv := g.declare(mk, kAny)
	mkv.const_ = true
	info := &objInfo{arith: true, callable: true, methods: map[string]*fnInfo{}}
	info.logs = logs
	info.methodTable = !indexIsFunc
	for _, n := range []string{a, b} {
		v := g.declare(n, kObj)
		v.obj = info
		v.const_ = true
	}
	out = append(out, g.objUse(a, b, info)...)
	return out
}

func (g *gen) objUseStmt() []Stmt {
	vs := g.visible(func(v *variable) bool { return v.k == kObj && v.obj != nil })
	if len(vs) < 1 {
		return g.objectStmt()
	}
	a := vs[g.n(len(vs), "objuse-a")]
	b := vs[g.n(len(vs), "objuse-b")]
	return g.objUse(a.name, b.name, a.obj)
}

// objUse emits results of metamethod-dispatched operations. With logging
// metamethods each emit contains exactly one dispatching operator.
func (g *gen) objUse(a, b string, info *objInfo) []Stmt {
	val := func(e Expr) Expr { return Field(e, "v") }
	g.feat("metamethod-use")
	var out []Stmt
	n := 1 + g.n(4, "objuse-n")
	for i := 0; i < n; i++ {
		switch g.n(12, "objuse-form") {
		case 0:
			op := []string{"+", "-", "*"}[g.n(3, "objuse-op")]
			out = append(out, Emit(S("arith"), val(&Paren{X: B(op, N(a), N(b))})))
		case 1:
			op := []string{"==", "~=", "<", "<=", ">", ">="}[g.n(6, "objuse-cmp")]
			out = append(out, Emit(S("cmp"), B(op, N(a), N(b))))
		case 2:
			out = append(out, Emit(S("unm"), val(&Paren{X: U("-", N(a))}), U("#", N(b))))
			if info.logs {
				out[len(out)-1] = Emit(S("unm"), val(&Paren{X: U("-", N(a))}))
			}
		case 3:
			out = append(out, Emit(S("call"), C(N(a), I(int64(g.n(5, "objuse-d"))))))
		case 4:
			out = append(out, Emit(S("concat"), B("..", N(a), S("s")), B("..", I(1), N(b))))
		case 5:
			out = append(out, Emit(S("tostring"), C(N("tostring"), N(a))))
		case 6:
			if info.methodTable {
				g.feat("method-call")
				out = append(out, Emit(S("method"), &MethCall{Obj: &MethCall{Obj: N(a), Name: "add", Args: []Expr{I(int64(g.n(5, "objuse-add")))}}, Name: "get"}))
			} else {
				out = append(out, Emit(S("index-fn"), Field(N(a), "nofield"), Idx(N(a), I(7))))
				if info.logs {
					out[len(out)-1] = Emit(S("index-fn"), Field(N(a), "nofield"))
				}
			}
		case 7:
			// assignment to an absent field goes through __newindex (if any), to a present one not
			f := []string{"p", "q"}[g.n(2, "objuse-field")]
			out = append(out,
				&Assign{Targets: []Expr{Field(N(a), f)}, Exprs: []Expr{I(int64(g.n(9, "objuse-fv")))}},
				Emit(S("rawget"), C(N("rawget"), N(a), S(f))),
				&Assign{Targets: []Expr{Field(N(a), f)}, Exprs: []Expr{I(int64(g.n(9, "objuse-fv2")))}},
				Emit(S("rawget2"), C(N("rawget"), N(a), S(f))),
			)
		case 8:
			out = append(out, Emit(S("rawequal"), C(N("rawequal"), N(a), N(b)), C(N("rawequal"), N(a), N(a)), C(N("rawlen"), N(a))))
		case 9:
			out = append(out, Emit(S("getmetatable"), B("==", C(N("getmetatable"), N(a)), C(N("getmetatable"), N(b)))))
		case 10:
			// mixed operand: number with object -> metamethod of the object
			out = append(out, Emit(S("mixed-eq"), B("==", N(a), I(1)), B("~=", S("x"), N(b))))
		default:
			out = append(out, Emit(S("obj"), N(a), N(b), N(a)))
		}
	}
	return out
}

func (g *gen) objIntExpr(v *variable, d int, c *ectx) Expr {
	if v.obj.logs {
		fi := &fnInfo{impure: true}
		if !g.canImpure(c, fi) {
			return nil
		}
	}
	val := func(e Expr) Expr { return Field(e, "v") }
	switch g.n(3, "objint-form") {
	case 0:
		return val(&Paren{X: B("+", N(v.name), N(v.name))})
	case 1:
		return U("#", N(v.name))
	default:
		return C(N(v.name), I(int64(g.n(4, "objint-d"))))
	}
}

func (g *gen) objBoolExpr(v *variable, d int, c *ectx) Expr {
	if v.obj.logs {
		fi := &fnInfo{impure: true}
		if !g.canImpure(c, fi) {
			return nil
		}
	}
	return B([]string{"<", "<=", "=="}[g.n(3, "objbool-op")], N(v.name), N(v.name))
}
