package luagen

import (
	"fmt"

	. "verif/internal/mlua"
)

// ErrorGrid enumerates programs: an error site of every kind, raised at a
// given depth (directly, through Lua frames, through a Go frame), under every
// protector, followed by code that keeps using the same locals, tables,
// closures and a fresh coroutine (so an inconsistent runtime would show).
func ErrorGrid() []GridCase {
	var out []GridCase

	type site struct {
		name  string
		stmts func() []Stmt // raises when executed
	}
	nilIdx := func() []Stmt { return []Stmt{Emit(Field(N("NILV"), "x"))} }
	sites := []site{
		{"error-string", func() []Stmt { return []Stmt{&CallStmt{Call: C(N("error"), S("boom"))}} }},
		{"error-empty-string", func() []Stmt { return []Stmt{&CallStmt{Call: C(N("error"), S(""))}} }},
		{"error-table", func() []Stmt { return []Stmt{&CallStmt{Call: C(N("error"), N("ERR"))}} }},
		{"error-number", func() []Stmt { return []Stmt{&CallStmt{Call: C(N("error"), I(42))}} }},
		{"error-float", func() []Stmt { return []Stmt{&CallStmt{Call: C(N("error"), &Float{V: 0.5})}} }},
		{"error-nil", func() []Stmt { return []Stmt{&CallStmt{Call: C(N("error"), &Nil{})}} }},
		{"error-noargs", func() []Stmt { return []Stmt{&CallStmt{Call: C(N("error"))}} }},
		{"error-true", func() []Stmt { return []Stmt{&CallStmt{Call: C(N("error"), &True{})}} }},
		{"error-function", func() []Stmt { return []Stmt{&CallStmt{Call: C(N("error"), N("tick"))}} }},
		{"error-level0", func() []Stmt { return []Stmt{&CallStmt{Call: C(N("error"), S("lvl0"), I(0))}} }},
		{"error-level1", func() []Stmt { return []Stmt{&CallStmt{Call: C(N("error"), S("lvl1"), I(1))}} }},
		{"error-level2", func() []Stmt { return []Stmt{&CallStmt{Call: C(N("error"), S("lvl2"), I(2))}} }},
		{"error-table-level2", func() []Stmt { return []Stmt{&CallStmt{Call: C(N("error"), N("ERR"), I(2))}} }},
		{"arith-nil", func() []Stmt { return []Stmt{Emit(B("+", N("NILV"), I(1)))} }},
		{"arith-string", func() []Stmt { return []Stmt{Emit(B("*", S("abc"), I(2)))} }},
		{"unm-table", func() []Stmt { return []Stmt{Emit(U("-", &Table{}))} }},
		{"index-nil", nilIdx},
		{"newindex-nil", func() []Stmt {
			return []Stmt{&Assign{Targets: []Expr{Field(N("NILV"), "x")}, Exprs: []Expr{I(1)}}}
		}},
		{"call-nil", func() []Stmt { return []Stmt{&CallStmt{Call: C(N("NILV"), I(1))}} }},
		{"call-number-field", func() []Stmt { return []Stmt{&CallStmt{Call: C(Field(N("state"), "n"))}} }},
		{"compare-mixed", func() []Stmt { return []Stmt{Emit(B("<", I(1), S("1")))} }},
		{"compare-tables", func() []Stmt { return []Stmt{Emit(B("<=", &Table{}, &Table{}))} }},
		{"concat-table", func() []Stmt { return []Stmt{Emit(B("..", S("a"), &Table{}))} }},
		{"len-number", func() []Stmt { return []Stmt{Emit(U("#", I(5)))} }},
		{"bitwise-float", func() []Stmt { return []Stmt{Emit(B("&", &Float{V: 1.5}, I(1)))} }},
		{"idiv-zero", func() []Stmt { return []Stmt{Emit(B("//", I(1), I(0)))} }},
		{"mod-zero", func() []Stmt { return []Stmt{Emit(B("%", I(1), I(0)))} }},
		{"for-bad-limit", func() []Stmt {
			return []Stmt{&NumFor{Var: "k", Start: I(1), Limit: &Table{}, Body: []Stmt{Emit(N("k"))}}}
		}},
		{"for-zero-step", func() []Stmt {
			return []Stmt{&NumFor{Var: "k", Start: I(1), Limit: I(2), Step: I(0), Body: []Stmt{Emit(N("k"))}}}
		}},
		{"assert-false", func() []Stmt { return []Stmt{&CallStmt{Call: C(N("assert"), &False{})}} }},
		{"assert-message", func() []Stmt { return []Stmt{&CallStmt{Call: C(N("assert"), &Nil{}, S("assert-msg"))}} }},
		{"assert-table", func() []Stmt { return []Stmt{&CallStmt{Call: C(N("assert"), &False{}, N("ERR"))}} }},
		{"metamethod-raises", func() []Stmt {
			return []Stmt{Emit(B("+", C(N("setmetatable"), &Table{}, &Table{Items: []TItem{{NameKey: "__add", Val: &Func{Params: []string{"a", "b"}, Body: []Stmt{&CallStmt{Call: C(N("error"), N("ERR"))}}}}}}), I(1)))}
		}},
		{"index-metamethod-raises", func() []Stmt {
			return []Stmt{Emit(Field(C(N("setmetatable"), &Table{}, &Table{Items: []TItem{{NameKey: "__index", Val: &Func{Params: []string{"t", "k"}, Body: []Stmt{&CallStmt{Call: C(N("error"), S("in-index"))}}}}}}), "zz"))}
		}},
		{"iterator-raises", func() []Stmt {
			return []Stmt{&GenFor{Names: []string{"x"}, Exprs: []Expr{&Func{Body: []Stmt{&CallStmt{Call: C(N("error"), N("ERR"))}}}}, Body: []Stmt{Emit(N("x"))}}}
		}},
		{"tostring-metamethod-raises", func() []Stmt {
			return []Stmt{Emit(C(N("tostring"), C(N("setmetatable"), &Table{}, &Table{Items: []TItem{{NameKey: "__tostring", Val: &Func{Body: []Stmt{&CallStmt{Call: C(N("error"), N("ERR"))}}}}}})))}
		}},
		{"close-handler-raises", func() []Stmt {
			return []Stmt{&Do{Body: []Stmt{
				&Local{Names: []string{"c"}, Attribs: []string{"close"}, Exprs: []Expr{gridCloser("c", ckRaiseTbl)}},
				Emit(S("in-scope")),
			}}}
		}},
		{"error-with-pending-close", func() []Stmt {
			return []Stmt{
				&Local{Names: []string{"c"}, Attribs: []string{"close"}, Exprs: []Expr{gridCloser("c", ckPlain)}},
				&CallStmt{Call: C(N("error"), N("ERR"))},
			}
		}},
		{"coroutine-error-rethrown", func() []Stmt {
			return []Stmt{
				&Local{Names: []string{"co"}, Exprs: []Expr{C(Glob("coroutine", "create"), &Func{Body: []Stmt{&CallStmt{Call: C(N("error"), N("ERR"))}}})}},
				&Local{Names: []string{"ok", "e"}, Exprs: []Expr{C(Glob("coroutine", "resume"), N("co"))}},
				Emit(S("resume-gave"), N("ok"), C(N("rawequal"), N("e"), N("ERR"))),
				&CallStmt{Call: C(N("error"), N("e"), I(0))},
			}
		}},
		{"wrap-error-table", func() []Stmt {
			return []Stmt{&CallStmt{Call: C(C(Glob("coroutine", "wrap"), &Func{Body: []Stmt{&CallStmt{Call: C(N("error"), N("ERR"))}}}))}}
		}},
	}

	// errors raised at level 2 (and 1) inside a metamethod: the position is the
	// line of the operation that triggered it, which stands alone on its line
	// after a call on an earlier line
	// The operand is a local, an upvalue or a table field (they are fetched by
	// different instructions); the result is stored or returned.
	mmObj := func(ev string, level int64) Expr {
		return C(N("setmetatable"), &Table{}, &Table{Items: []TItem{{NameKey: ev, Val: &Func{IsVar: true, Body: []Stmt{
			&CallStmt{Call: C(N("error"), S("in-"+ev), I(level))},
		}}}}})
	}
	mmSite := func(ev string, level int64, kind string, op func(mm func() Expr) Stmt) site {
		return site{fmt.Sprintf("metamethod-%s-level%d-%s", ev, level, kind), func() []Stmt {
			switch kind {
			case "upvalue":
				return []Stmt{
					&Local{Names: []string{"MM"}, Exprs: []Expr{mmObj(ev, level)}},
					&LocalFunc{Name: "opf", F: &Func{Body: []Stmt{
						&Assign{Targets: []Expr{N("before")}, Exprs: []Expr{C(N("select"), I(2), C(N("tick"), S("kept")))}},
						op(func() Expr { return N("MM") }),
					}}},
					&CallStmt{Call: C(N("opf"))},
				}
			case "field":
				return []Stmt{
					&Assign{Targets: []Expr{Field(N("state"), "mm")}, Exprs: []Expr{mmObj(ev, level)}},
					&Assign{Targets: []Expr{Field(N("state"), "z")}, Exprs: []Expr{C(N("tick"))}},
					op(func() Expr { return Field(N("state"), "mm") }),
				}
			}
			return []Stmt{
				&Local{Names: []string{"MM"}, Exprs: []Expr{mmObj(ev, level)}},
				&CallStmt{Call: C(N("tick"))},
				op(func() Expr { return N("MM") }),
			}
		}}
	}
	lr := func(e Expr) Stmt { return &Local{Names: []string{"r"}, Exprs: []Expr{e}} }
	ret := func(e Expr) Stmt { return &Return{Exprs: []Expr{e}} }
	for _, level := range []int64{2, 1} {
		for _, kind := range []string{"local", "upvalue", "field"} {
			st := lr
			if kind == "upvalue" {
				st = ret
			}
			sites = append(sites,
				mmSite("__index", level, kind, func(mm func() Expr) Stmt { return st(Field(mm(), "k")) }),
				mmSite("__newindex", level, kind, func(mm func() Expr) Stmt {
					return &Assign{Targets: []Expr{Field(mm(), "k")}, Exprs: []Expr{I(1)}}
				}),
				mmSite("__len", level, kind, func(mm func() Expr) Stmt { return st(U("#", mm())) }),
				mmSite("__unm", level, kind, func(mm func() Expr) Stmt { return st(U("-", mm())) }),
				mmSite("__add", level, kind, func(mm func() Expr) Stmt { return st(B("+", mm(), I(1))) }),
				mmSite("__concat", level, kind, func(mm func() Expr) Stmt { return st(B("..", S("a"), mm())) }),
				mmSite("__lt", level, kind, func(mm func() Expr) Stmt { return st(B("<", mm(), mm())) }),
				mmSite("__le", level, kind, func(mm func() Expr) Stmt { return st(B("<=", I(1), mm())) }),
				mmSite("__eq", level, kind, func(mm func() Expr) Stmt {
					return st(B("==", mm(), C(N("setmetatable"), &Table{}, C(N("getmetatable"), mm()))))
				}),
				mmSite("__band", level, kind, func(mm func() Expr) Stmt { return st(B("&", mm(), I(1))) }),
				mmSite("__call", level, kind, func(mm func() Expr) Stmt { return &CallStmt{Call: C(mm(), I(1))} }),
			)
		}
	}

	// depth: how the site is reached from the protected function
	type depth struct {
		name string
		wrap func(raise []Stmt) []Stmt
	}
	depths := []depth{
		{"direct", func(r []Stmt) []Stmt { return r }},
		{"one-frame", func(r []Stmt) []Stmt {
			return []Stmt{&LocalFunc{Name: "lvl1", F: &Func{Body: r}}, &CallStmt{Call: C(N("lvl1"))}, Emit(S("unreachable"))}
		}},
		{"three-frames", func(r []Stmt) []Stmt {
			return []Stmt{
				&LocalFunc{Name: "lvl1", F: &Func{Body: r}},
				&LocalFunc{Name: "lvl2", F: &Func{Body: []Stmt{&Local{Names: []string{"keep"}, Exprs: []Expr{C(N("lvl1"))}}, &Return{Exprs: []Expr{N("keep")}}}}},
				&LocalFunc{Name: "lvl3", F: &Func{Body: []Stmt{&CallStmt{Call: C(N("lvl2"))}, Emit(S("unreachable"))}}},
				&CallStmt{Call: C(N("lvl3"))},
			}
		}},
		{"tail-call", func(r []Stmt) []Stmt {
			return []Stmt{&LocalFunc{Name: "lvl1", F: &Func{Body: r}}, &Return{Exprs: []Expr{C(N("lvl1"))}}}
		}},
		{"through-go-pcall", func(r []Stmt) []Stmt {
			// pcall(pcall, f): the inner pcall (a Go frame) catches, the result is rethrown
			return []Stmt{
				&LocalFunc{Name: "lvl1", F: &Func{Body: r}},
				&Local{Names: []string{"a", "b", "c"}, Exprs: []Expr{C(N("pcall"), N("pcall"), N("lvl1"))}},
				Emit(S("pcall-pcall"), N("a"), N("b")),
				&CallStmt{Call: C(N("error"), N("c"), I(0))},
			}
		}},
		{"through-metamethod", func(r []Stmt) []Stmt {
			return []Stmt{
				&Local{Names: []string{"obj"}, Exprs: []Expr{C(N("setmetatable"), &Table{}, &Table{Items: []TItem{{NameKey: "__call", Val: &Func{Params: []string{"self"}, Body: r}}}})}},
				&CallStmt{Call: C(N("obj"))},
				Emit(S("unreachable")),
			}
		}},
		{"through-iterator", func(r []Stmt) []Stmt {
			return []Stmt{&GenFor{Names: []string{"x"}, Exprs: []Expr{&Func{Body: r}}, Body: []Stmt{Emit(S("unreachable-body"))}}}
		}},
	}

	type protector struct {
		name string
		// call returns statements that run fn (an expression evaluating to the
		// protected function) and emit what the protector yields
		call func(fn Expr) []Stmt
	}
	protectors := []protector{
		{"pcall", func(fn Expr) []Stmt {
			return []Stmt{
				&Local{Names: []string{"ok", "e", "extra"}, Exprs: []Expr{C(N("pcall"), fn)}},
				Emit(S("caught"), N("ok"), N("e"), C(N("rawequal"), N("e"), N("ERR")), N("extra")),
			}
		}},
		{"xpcall", func(fn Expr) []Stmt {
			return []Stmt{
				&Local{Names: []string{"ok", "e", "extra"}, Exprs: []Expr{C(N("xpcall"), fn, &Func{Params: []string{"m"}, Body: []Stmt{
					Emit(S("handler"), N("m"), C(N("rawequal"), N("m"), N("ERR"))),
					&Return{Exprs: []Expr{&Table{Items: []TItem{{NameKey: "wrapped", Val: N("m")}}}}},
				}})}},
				Emit(S("caught"), N("ok"), C(N("type"), N("e")), &Paren{X: B("and", B("==", C(N("type"), N("e")), S("table")), C(N("rawequal"), Field(N("e"), "wrapped"), N("ERR")))}, N("extra")),
			}
		}},
		{"resume", func(fn Expr) []Stmt {
			return []Stmt{
				&Local{Names: []string{"co"}, Exprs: []Expr{C(Glob("coroutine", "create"), fn)}},
				&Local{Names: []string{"ok", "e", "extra"}, Exprs: []Expr{C(Glob("coroutine", "resume"), N("co"))}},
				Emit(S("caught"), N("ok"), N("e"), C(N("rawequal"), N("e"), N("ERR")), N("extra"), C(Glob("coroutine", "status"), N("co"))),
			}
		}},
		{"pcall-wrap", func(fn Expr) []Stmt {
			return []Stmt{
				&Local{Names: []string{"ok", "e", "extra"}, Exprs: []Expr{C(N("pcall"), C(Glob("coroutine", "wrap"), fn))}},
				// the value itself: coroutine.wrap is no boundary, the error goes on
				// to the pcall unchanged (C11: "delivers v itself ... to the nearest
				// enclosing pcall")
				Emit(S("caught"), N("ok"), N("e"), C(N("rawequal"), N("e"), N("ERR")), N("extra")),
			}
		}},
		{"pcall-wrap-iterator", func(fn Expr) []Stmt {
			return []Stmt{
				&Local{Names: []string{"ok", "e", "extra"}, Exprs: []Expr{C(N("pcall"), &Func{Body: []Stmt{
					&GenFor{Names: []string{"v"}, Exprs: []Expr{C(Glob("coroutine", "wrap"), fn)}, Body: []Stmt{Emit(S("unreachable-iteration"))}},
				}})}},
				Emit(S("caught"), N("ok"), N("e"), C(N("rawequal"), N("e"), N("ERR")), N("extra")),
			}
		}},
		{"nested-pcall", func(fn Expr) []Stmt {
			return []Stmt{
				&Local{Names: []string{"ok", "e", "extra"}, Exprs: []Expr{C(N("pcall"), &Func{Body: []Stmt{
					&Local{Names: []string{"iok", "ie"}, Exprs: []Expr{C(N("pcall"), fn)}},
					Emit(S("inner"), N("iok"), N("ie"), C(N("rawequal"), N("ie"), N("ERR"))),
					&Return{Exprs: []Expr{S("outer-fine"), N("iok")}},
				}})}},
				Emit(S("caught"), N("ok"), N("e"), N("extra")),
			}
		}},
		{"pcall-in-coroutine", func(fn Expr) []Stmt {
			return []Stmt{
				&Local{Names: []string{"co"}, Exprs: []Expr{C(Glob("coroutine", "wrap"), &Func{Body: []Stmt{
					&Local{Names: []string{"iok", "ie"}, Exprs: []Expr{C(N("pcall"), fn)}},
					&CallStmt{Call: C(Glob("coroutine", "yield"), N("iok"), N("ie"))},
					&Return{Exprs: []Expr{S("co-finished")}},
				}})}},
				&Local{Names: []string{"ok", "e"}, Exprs: []Expr{C(N("co"))}},
				Emit(S("caught"), N("ok"), N("e"), C(N("rawequal"), N("e"), N("ERR"))),
				Emit(S("co-again"), C(N("co"))),
			}
		}},
	}

	for _, s := range sites {
		for _, d := range depths {
			for _, p := range protectors {
				fnBody := []Stmt{
					&Assign{Targets: []Expr{Field(N("state"), "n")}, Exprs: []Expr{B("+", Field(N("state"), "n"), I(1))}},
					&Local{Names: []string{"mine"}, Exprs: []Expr{B("*", Field(N("state"), "n"), I(10))}},
				}
				fnBody = append(fnBody, d.wrap(s.stmts())...)
				block := []Stmt{
					&Local{Names: []string{"ERR", "NILV"}, Exprs: []Expr{&Table{Items: []TItem{{NameKey: "tag", Val: S("err-table")}}}}},
					&Local{Names: []string{"state"}, Exprs: []Expr{&Table{Items: []TItem{{NameKey: "n", Val: I(0)}}}}},
					&LocalFunc{Name: "tick", F: &Func{Params: []string{"x"}, Body: []Stmt{
						&Assign{Targets: []Expr{Field(N("state"), "n")}, Exprs: []Expr{B("+", Field(N("state"), "n"), I(1))}},
						&Return{Exprs: []Expr{Field(N("state"), "n"), N("x")}},
					}}},
					&Local{Names: []string{"before"}, Exprs: []Expr{S("kept")}},
				}
				block = append(block, p.call(&Func{Body: fnBody})...)
				// continuation: everything still works
				block = append(block,
					Emit(S("after"), N("before"), Field(N("state"), "n"), C(N("tick"), S("t"))),
					&NumFor{Var: "i", Start: I(1), Limit: I(2), Body: []Stmt{Emit(S("loop"), N("i"), C(N("tick"), N("i")))}},
					Emit(S("again"), C(N("pcall"), &Func{Body: []Stmt{&Return{Exprs: []Expr{S("fine"), C(N("tick"), S("u"))}}}})),
					Emit(S("new-co"), C(C(Glob("coroutine", "wrap"), &Func{Body: []Stmt{&CallStmt{Call: C(Glob("coroutine", "yield"), S("y"))}}}))),
					Emit(S("second-error"), C(N("pcall"), N("error"), N("ERR"))),
				)
				out = append(out, GridCase{Name: fmt.Sprintf("%s/%s/%s", s.name, d.name, p.name), Block: block})
			}
		}
	}
	return out
}
