package luagen

import (
	"math"

	. "verif/internal/mlua"
)

func lit(b bool) Expr {
	if b {
		return &True{}
	}
	return &False{}
}

func intLit(v int64) Expr {
	if v == math.MinInt64 {
		return Glob("math", "mininteger")
	}
	return &Int{V: v}
}

// canImpure reports whether an impure member with the given write set may be
// added to the statement, and records it.
func (g *gen) canImpure(c *ectx, fi *fnInfo) bool {
	if c == nil || c.usedImpure {
		return false
	}
	for v := range fi.writes {
		if c.reads[v] {
			return false
		}
	}
	c.usedImpure = true
	c.writes = fi.writes
	if g.inFn != nil {
		g.inFn.impure = true
		for v := range fi.writes {
			g.noteWrite(v)
		}
		if fi.raises {
			g.inFn.raises = true
		}
	}
	return true
}

// noteWrite records that the function being generated writes v (when v is
// declared outside it).
func (g *gen) noteWrite(v *variable) {
	if g.inFn != nil && v.depth < g.fdepth {
		if g.inFn.writes == nil {
			g.inFn.writes = map[*variable]bool{}
		}
		g.inFn.writes[v] = true
		g.inFn.impure = true
	}
}

// callable functions returning the wanted kinds
func (g *gen) pickFunc(c *ectx, want func(*fnInfo) bool, label string) *variable {
	vs := g.visible(func(v *variable) bool {
		if v.k != kFunc || v.fn == nil || v.fn.raises || v.fn.yields || !want(v.fn) {
			return false
		}
		if v.fn.impure {
			if c == nil || c.usedImpure {
				return false
			}
			for w := range v.fn.writes {
				if c.reads[w] {
					return false
				}
			}
		}
		return true
	})
	if len(vs) == 0 {
		return nil
	}
	return vs[g.n(len(vs), label)]
}

// callExpr builds a call of function variable v with integer arguments.
func (g *gen) callExpr(v *variable, d int, c *ectx) Expr {
	if v.fn.impure {
		if !g.canImpure(c, v.fn) {
			panic("luagen: impure call not allowed here")
		}
	}
	g.feat("call")
	n := v.fn.nparams
	if v.fn.isVar {
		n += g.n(3, "extra-args")
	} else if g.chance(10, "argc-mismatch") {
		n += g.n(3, "argc-delta") - 1 // fewer or more arguments than parameters
		if n < 0 {
			n = 0
		}
	}
	args := make([]Expr, n)
	for i := range args {
		args[i] = g.intExpr(d-1, c)
	}
	return &Call{Fn: N(v.name), Args: args}
}

func (g *gen) intExpr(d int, c *ectx) Expr {
	if d <= 0 || g.n(10, "int-leaf") < 3 {
		return g.intLeaf(c)
	}
	switch g.n(16, "int-form") {
	case 0, 1, 2:
		op := []string{"+", "-", "*"}[g.n(3, "arith-op")]
		return B(op, g.intExpr(d-1, c), g.intExpr(d-1, c))
	case 3:
		// floor division / modulo by a non-zero integer (x | 1 is odd)
		op := []string{"//", "%"}[g.n(2, "divop")]
		var div Expr
		if g.chance(50, "div-lit") {
			div = intLit([]int64{1, 2, 3, -1, -2, -3, 7, -7, 10}[g.n(9, "divisor")])
		} else {
			div = &Paren{X: B("|", g.intExpr(d-1, c), I(1))}
		}
		return B(op, g.intExpr(d-1, c), div)
	case 4:
		op := []string{"&", "|", "~", "<<", ">>"}[g.n(5, "bitop")]
		r := g.intExpr(d-1, c)
		if op == "<<" || op == ">>" {
			if g.chance(70, "small-shift") {
				r = I(int64(g.n(70, "shift")) - 3)
			}
		}
		return B(op, g.intExpr(d-1, c), r)
	case 5:
		return U([]string{"-", "~"}[g.n(2, "unop")], g.intExpr(d-1, c))
	case 6:
		return U("#", g.strExpr(d-1, c))
	case 7:
		if v := g.pickVar(kArr, c, "arr-len"); v != nil {
			return U("#", N(v.name))
		}
	case 8:
		if v := g.pickVar(kArr, c, "arr-index"); v != nil {
			return &Paren{X: B("or", Idx(N(v.name), g.intExpr(d-1, c)), g.intLeaf(c))}
		}
	case 9:
		if v := g.pickFunc(c, func(f *fnInfo) bool { return len(f.rets) >= 1 && f.rets[0] == kInt }, "int-fn"); v != nil {
			return g.callExpr(v, d, c)
		}
	case 10:
		// string -> number coercion in arithmetic
		if e := g.numStrExpr(c); e != nil {
			g.feat("string-arith")
			return B("+", e, g.intExpr(d-1, c))
		}
	case 11:
		// and/or selection
		return &Paren{X: B("or", B("and", g.boolExpr(d-1, c), g.intExpr(d-1, c)), g.intExpr(d-1, c))}
	case 12:
		// float with an integer value back to an integer
		return &Paren{X: B("or", C(Glob("math", "tointeger"), B("*", g.intLeaf(c), &Float{V: 2})), I(0))}
	case 13:
		if o := g.pickObj(c, func(o *objInfo) bool { return o.arith }); o != nil {
			if e := g.objIntExpr(o, d, c); e != nil {
				return e
			}
		}
	case 14:
		if g.inVarargFn() {
			g.feat("select")
			return C(N("select"), S("#"), &Vararg{})
		}
	}
	return g.intLeaf(c)
}

func (g *gen) intLeaf(c *ectx) Expr {
	if g.chance(55, "int-var") {
		if v := g.pickVar(kInt, c, "int-var-pick"); v != nil {
			return N(v.name)
		}
	}
	return intLit(g.intValue("int-lit"))
}

func (g *gen) floatExpr(d int, c *ectx) Expr {
	if d <= 0 || g.n(10, "float-leaf") < 3 {
		if g.chance(50, "float-var") {
			if v := g.pickVar(kFloat, c, "float-var-pick"); v != nil {
				return N(v.name)
			}
		}
		return &Float{V: g.floatValue("float-lit")}
	}
	switch g.n(8, "float-form") {
	case 0:
		return B("/", g.intExpr(d-1, c), g.intExpr(d-1, c))
	case 1, 2:
		op := []string{"+", "-", "*", "/"}[g.n(4, "fop")]
		return B(op, g.floatExpr(d-1, c), g.floatExpr(d-1, c))
	case 3:
		op := []string{"+", "-", "*"}[g.n(3, "mixop")]
		return B(op, g.intExpr(d-1, c), g.floatExpr(d-1, c))
	case 4:
		op := []string{"//", "%"}[g.n(2, "fdivop")]
		return B(op, g.floatExpr(d-1, c), &Float{V: []float64{0.5, 2, -3, 1.5, 0.25}[g.n(5, "fdivisor")]})
	case 5:
		return U("-", g.floatExpr(d-1, c))
	case 6:
		// exact power
		return B("^", I(int64(2+g.n(2, "powbase"))), I(int64(g.n(12, "powexp"))))
	}
	return &Float{V: g.floatValue("float-lit2")}
}

func (g *gen) numStrExpr(c *ectx) Expr {
	if g.chance(50, "numstr-var") {
		if v := g.pickVar(kNumStr, c, "numstr-var-pick"); v != nil {
			return N(v.name)
		}
	}
	return S([]string{"10", "0x10", " 7 ", "-2", "3"}[g.n(5, "numstr-lit")])
}

func (g *gen) strExpr(d int, c *ectx) Expr {
	if d <= 0 || g.n(10, "str-leaf") < 4 {
		if g.chance(50, "str-var") {
			if v := g.pickVar(kStr, c, "str-var-pick"); v != nil {
				return N(v.name)
			}
		}
		return S(g.strValue("str-lit"))
	}
	switch g.n(9, "str-form") {
	case 0, 1:
		return B("..", g.strExpr(d-1, c), g.strExpr(d-1, c))
	case 2:
		g.feat("int-to-string")
		return B("..", g.strExpr(d-1, c), g.intExpr(d-1, c))
	case 3:
		return C(N("tostring"), g.intExpr(d-1, c))
	case 4:
		g.feat("string-method")
		return &MethCall{Obj: g.strExpr(d-1, c), Name: "sub", Args: []Expr{I(int64(g.n(7, "sub-i")) - 3), I(int64(g.n(7, "sub-j")) - 3)}}
	case 5:
		g.feat("string-method")
		return &MethCall{Obj: g.strExpr(d-1, c), Name: "rep", Args: []Expr{I(int64(g.n(4, "rep-n")))}}
	case 6:
		return C(N("type"), g.anyExpr(d-1, c))
	case 7:
		if v := g.pickFunc(c, func(f *fnInfo) bool { return len(f.rets) >= 1 && f.rets[0] == kStr }, "str-fn"); v != nil {
			return g.callExpr(v, d, c)
		}
	case 8:
		return &Paren{X: B("or", B("and", g.boolExpr(d-1, c), g.strExpr(d-1, c)), g.strExpr(d-1, c))}
	}
	return S(g.strValue("str-lit2"))
}

func (g *gen) boolExpr(d int, c *ectx) Expr {
	if d <= 0 || g.n(10, "bool-leaf") < 2 {
		if g.chance(50, "bool-var") {
			if v := g.pickVar(kBool, c, "bool-var-pick"); v != nil {
				return N(v.name)
			}
		}
		return lit(g.chance(50, "bool-lit"))
	}
	cmp := []string{"<", "<=", ">", ">=", "==", "~="}
	switch g.n(9, "bool-form") {
	case 0, 1, 2:
		return B(cmp[g.n(6, "cmp")], g.intExpr(d-1, c), g.intExpr(d-1, c))
	case 3:
		// mixed int/float comparison is mathematically exact
		g.feat("int-float-compare")
		return B(cmp[g.n(6, "cmp-mixed")], g.intExpr(d-1, c), g.floatExpr(d-1, c))
	case 4:
		return B(cmp[g.n(6, "cmp-str")], g.asciiStrExpr(d-1, c), g.asciiStrExpr(d-1, c))
	case 5:
		return U("not", g.boolExpr(d-1, c))
	case 6:
		return B([]string{"and", "or"}[g.n(2, "logic")], g.boolExpr(d-1, c), g.boolExpr(d-1, c))
	case 7:
		return B([]string{"==", "~="}[g.n(2, "eq-any")], g.anyExpr(d-1, c), g.anyExpr(d-1, c))
	case 8:
		if o := g.pickObj(c, func(o *objInfo) bool { return o.arith }); o != nil {
			if e := g.objBoolExpr(o, d, c); e != nil {
				return e
			}
		}
	}
	return lit(g.chance(50, "bool-lit2"))
}

// asciiStrExpr: strings compared with < must be ASCII (strcoll/locale).
func (g *gen) asciiStrExpr(d int, c *ectx) Expr {
	return S([]string{"", "a", "b", "ab", "abc", "B", "a\x00b", "a\x00c", "10", "9"}[g.n(10, "ascii-str")])
}

func (g *gen) arrExpr(d int, c *ectx) Expr {
	n := g.n(5, "arr-n")
	t := &Table{}
	for i := 0; i < n; i++ {
		t.Items = append(t.Items, TItem{Val: g.intExpr(d-1, c)})
	}
	// trailing multi-value: a call returning several ints, or ...
	if g.chance(20, "arr-multi") {
		if v := g.pickFunc(c, func(f *fnInfo) bool {
			for _, k := range f.rets {
				if k != kInt {
					return false
				}
			}
			return len(f.rets) > 0
		}, "arr-multi-fn"); v != nil {
			g.feat("constructor-multi")
			t.Items = append(t.Items, TItem{Val: g.callExpr(v, d, c)})
		}
	}
	return t
}

// anyExpr: an expression of any kind, used only where every kind is fine
// (emit arguments, equality, type()).
func (g *gen) anyExpr(d int, c *ectx) Expr {
	switch g.n(9, "any-kind") {
	case 0, 1, 2:
		return g.intExpr(d, c)
	case 3:
		return g.floatExpr(d, c)
	case 4:
		return g.strExpr(d, c)
	case 5:
		return g.boolExpr(d, c)
	case 6:
		return &Nil{}
	case 7:
		if v := g.pickVar(kArr, c, "any-arr"); v != nil {
			return N(v.name)
		}
		return g.intExpr(d, c)
	default:
		if v := g.pickVar(kAny, c, "any-var"); v != nil {
			return N(v.name)
		}
		return g.strExpr(d, c)
	}
}

func (g *gen) exprOfKind(k kind, d int, c *ectx) Expr {
	switch k {
	case kInt:
		return g.intExpr(d, c)
	case kFloat:
		return g.floatExpr(d, c)
	case kStr:
		return g.strExpr(d, c)
	case kNumStr:
		return g.numStrExpr(c)
	case kBool:
		return g.boolExpr(d, c)
	case kNil:
		return &Nil{}
	case kArr:
		return g.arrExpr(d, c)
	}
	return g.anyExpr(d, c)
}

func (g *gen) inVarargFn() bool { return g.varargOK }
