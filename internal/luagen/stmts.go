package luagen

import (
	. "verif/internal/mlua"
)

// block generates a block in a new scope. top: the main chunk's block.
func (g *gen) block(top bool) []Stmt {
	if !top {
		// (the top block is rendered without delimiters: its locals, shadowing
		// ones included, are still in scope for the chunk's final return)
		g.push()
		defer g.pop()
	}
	var out []Stmt
	n := 1 + g.n(6, "block-len")
	if top {
		n = 3 + g.n(10, "top-len")
	}
	for i := 0; i < n && g.fuel > 0; i++ {
		out = append(out, g.stmt()...)
	}
	if len(out) == 0 {
		out = append(out, g.emitStmt())
	}
	return out
}

// bodyBlock generates a nested block (loop/if/function body) with extra
// leading statements.
func (g *gen) nested(prefix ...Stmt) []Stmt {
	g.fuel -= 1
	return append(prefix, g.block(false)...)
}

func (g *gen) emitStmt() Stmt {
	c := newEctx()
	n := 1 + g.n(3, "emit-n")
	args := make([]Expr, n)
	for i := range args {
		args[i] = g.anyExpr(2, c)
	}
	// sometimes a multi-valued last argument
	if g.chance(15, "emit-multi") {
		if v := g.pickFunc(c, func(f *fnInfo) bool { return len(f.rets) >= 2 }, "emit-multi-fn"); v != nil {
			g.feat("multi-results-in-args")
			args = append(args, g.callExpr(v, 2, c))
		}
	}
	return Emit(args...)
}

type stmtGen struct {
	w int
	f func() []Stmt
}

func (g *gen) stmt() []Stmt {
	g.fuel--
	p := g.prof
	deep := g.fuel > 4
	opts := []stmtGen{
		{10, func() []Stmt { return []Stmt{g.emitStmt()} }},
		{10, g.localStmt},
		{7, g.assignStmt},
		{3, g.multiAssignStmt},
	}
	if deep {
		opts = append(opts,
			stmtGen{5, g.ifStmt},
			stmtGen{3, g.whileStmt},
			stmtGen{2, g.repeatStmt},
			stmtGen{4, g.numForStmt},
			stmtGen{4, g.genForStmt},
			stmtGen{2, g.doStmt},
			stmtGen{p.Closures, g.funcDefStmt},
			stmtGen{p.Closures, g.closureLoopStmt},
			stmtGen{3, g.callStmt},
			stmtGen{p.Varargs, g.varargFuncStmt},
			stmtGen{p.Meta, g.objectStmt},
			stmtGen{p.Meta, g.objUseStmt},
			stmtGen{p.Meta, g.callChainStmt},
			stmtGen{p.Errors, g.pcallStmt},
			stmtGen{p.Errors, g.runtimeErrorStmt},
			stmtGen{p.Close, g.closeStmt},
			stmtGen{p.Goto, g.gotoStmt},
			stmtGen{2, g.recursionStmt},
			stmtGen{p.Strings, g.stringStmt},
			stmtGen{3, g.tableStmt},
			stmtGen{p.Coroutines, g.coroutineStmt},
		)
	}
	if g.loopDepth > 0 {
		opts = append(opts, stmtGen{2, g.breakStmt})
	}
	total := 0
	for _, o := range opts {
		total += o.w
	}
	r := g.n(total, "stmt-kind")
	for _, o := range opts {
		if r < o.w {
			return o.f()
		}
		r -= o.w
	}
	return []Stmt{g.emitStmt()}
}

func (g *gen) localStmt() []Stmt {
	c := newEctx()
	k := []kind{kInt, kInt, kInt, kFloat, kStr, kBool, kArr, kNumStr}[g.n(8, "local-kind")]
	name := g.fresh("v")
	if g.chance(10, "shadow") {
		// shadow an existing variable of any kind
		if vs := g.visible(func(v *variable) bool { return !v.global && !v.const_ }); len(vs) > 0 {
			name = vs[g.n(len(vs), "shadow-pick")].name
			g.feat("shadowing")
		}
	}
	e := g.exprOfKind(k, 3, c)
	st := &Local{Names: []string{name}, Exprs: []Expr{e}}
	if g.chance(8, "const-attrib") {
		st.Attribs = []string{"const"}
		g.declare(name, k).const_ = true
		g.feat("const")
		return []Stmt{st}
	}
	// several names at once
	if g.chance(15, "local-multi") {
		name2 := g.fresh("v")
		k2 := []kind{kInt, kStr, kBool}[g.n(3, "local-kind2")]
		st.Names = append(st.Names, name2)
		if g.chance(70, "local-multi-both") {
			st.Exprs = append(st.Exprs, g.exprOfKind(k2, 2, c))
			g.declare(name, k)
			g.declare(name2, k2)
		} else {
			// fewer expressions than names: the rest is nil
			g.declare(name, k)
			g.declare(name2, kNil)
		}
		return []Stmt{st}
	}
	g.declare(name, k)
	return []Stmt{st}
}

func (g *gen) assignable(k kind, c *ectx) *variable {
	vs := g.visible(func(v *variable) bool { return v.k == k && !v.const_ && !(c.usedImpure && c.writes[v]) })
	if len(vs) == 0 {
		return nil
	}
	return vs[g.n(len(vs), "assign-target")]
}

func (g *gen) assignStmt() []Stmt {
	c := newEctx()
	k := []kind{kInt, kInt, kStr, kBool, kFloat}[g.n(5, "assign-kind")]
	v := g.assignable(k, c)
	if v == nil {
		return g.localStmt()
	}
	c.reads[v] = true // an impure member must not also write the target
	e := g.exprOfKind(k, 3, c)
	g.noteWrite(v)
	if v.global {
		g.feat("global-assign")
	}
	return []Stmt{&Assign{Targets: []Expr{N(v.name)}, Exprs: []Expr{e}}}
}

// targetOrderStmt: in a multiple assignment the sub-expressions of all
// targets (tables and keys) are evaluated before any assignment happens
// (manual §3.3.3: `i, a[i] = i+1, 20` sets a[3] when i was 3).
func (g *gen) targetOrderStmt() []Stmt {
	g.feat("multi-assign-target-order")
	ix, tb, nd := g.fresh("ix"), g.fresh("tb"), g.fresh("nd")
	k := int64(1 + g.n(4, "mato-k"))
	five := &Table{Items: []TItem{{Val: I(10)}, {Val: I(20)}, {Val: I(30)}, {Val: I(40)}, {Val: I(50)}, {Val: I(60)}}}
	switch g.n(5, "mato-form") {
	case 0:
		return []Stmt{&Do{Body: []Stmt{
			&Local{Names: []string{ix, tb}, Exprs: []Expr{I(k), five}},
			&Assign{Targets: []Expr{N(ix), Idx(N(tb), N(ix))}, Exprs: []Expr{B("+", N(ix), I(1)), I(99)}},
			Emit(S("i,a[i]"), N(ix), Idx(N(tb), I(k)), Idx(N(tb), I(k+1))),
		}}}
	case 1:
		// the key is assigned after the indexed target in the list
		return []Stmt{&Do{Body: []Stmt{
			&Local{Names: []string{ix, tb}, Exprs: []Expr{I(k), five}},
			&Assign{Targets: []Expr{Idx(N(tb), N(ix)), N(ix)}, Exprs: []Expr{I(77), B("+", N(ix), I(1))}},
			Emit(S("a[i],i"), N(ix), Idx(N(tb), I(k)), Idx(N(tb), I(k+1))),
		}}}
	case 2:
		// the table variable itself is replaced: the field goes into the old table
		old := g.fresh("old")
		return []Stmt{&Do{Body: []Stmt{
			&Local{Names: []string{tb}, Exprs: []Expr{&Table{}}},
			&Local{Names: []string{old}, Exprs: []Expr{N(tb)}},
			&Assign{Targets: []Expr{N(tb), Field(N(tb), "x")}, Exprs: []Expr{&Table{}, I(k)}},
			Emit(S("t,t.x"), Field(N(old), "x"), Field(N(tb), "x"), B("==", N(old), N(tb))),
		}}}
	case 3:
		// linked list append: cur, cur.next = node, node
		cur := g.fresh("cur")
		return []Stmt{&Do{Body: []Stmt{
			&Local{Names: []string{cur}, Exprs: []Expr{&Table{Items: []TItem{{NameKey: "v", Val: I(0)}}}}},
			&Local{Names: []string{"head"}, Exprs: []Expr{N(cur)}},
			&NumFor{Var: "q", Start: I(1), Limit: I(k), Body: []Stmt{
				&Local{Names: []string{nd}, Exprs: []Expr{&Table{Items: []TItem{{NameKey: "v", Val: N("q")}}}}},
				&Assign{Targets: []Expr{N(cur), Field(N(cur), "next")}, Exprs: []Expr{N(nd), N(nd)}},
			}},
			Emit(S("list"), Field(Field(N("head"), "next"), "v"), Field(N(cur), "v"), Field(N(cur), "next")),
		}}}
	default:
		// upvalue as key, assigned in the same statement, inside a closure
		return []Stmt{&Do{Body: []Stmt{
			&Local{Names: []string{ix, tb}, Exprs: []Expr{I(k), five}},
			&Local{Names: []string{"bump"}, Exprs: []Expr{&Func{Body: []Stmt{
				&Assign{Targets: []Expr{N(ix), Idx(N(tb), N(ix)), Idx(N(tb), B("+", N(ix), I(1)))}, Exprs: []Expr{B("+", N(ix), I(1)), S("at-old"), S("after-old")}},
			}}}},
			&CallStmt{Call: C(N("bump"))},
			Emit(S("upvalue-key"), N(ix), Idx(N(tb), I(k)), Idx(N(tb), I(k+1)), Idx(N(tb), I(k+2))),
		}}}
	}
}

func (g *gen) multiAssignStmt() []Stmt {
	if g.chance(35, "massign-target-order") {
		return g.targetOrderStmt()
	}
	c := newEctx()
	a := g.assignable(kInt, c)
	b := g.assignable(kInt, c)
	if a == nil || b == nil || a == b {
		return g.localStmt()
	}
	c.reads[a], c.reads[b] = true, true
	g.noteWrite(a)
	g.noteWrite(b)
	g.feat("multi-assign")
	switch g.n(4, "massign-form") {
	case 0:
		// swap
		return []Stmt{&Assign{Targets: []Expr{N(a.name), N(b.name)}, Exprs: []Expr{N(b.name), N(a.name)}}}
	case 1:
		return []Stmt{&Assign{Targets: []Expr{N(a.name), N(b.name)}, Exprs: []Expr{g.intExpr(2, c), g.intExpr(2, c)}}}
	case 2:
		// from a function returning two ints
		if f := g.pickFunc(c, func(f *fnInfo) bool { return len(f.rets) >= 2 && f.rets[0] == kInt && f.rets[1] == kInt }, "massign-fn"); f != nil {
			g.feat("multi-results-assign")
			return []Stmt{&Assign{Targets: []Expr{N(a.name), N(b.name)}, Exprs: []Expr{g.callExpr(f, 2, c)}}}
		}
	case 3:
		// table slots and a variable: t[i], x = x, t[i]
		if t := g.pickVar(kArr, c, "massign-arr"); t != nil {
			i := I(int64(1 + g.n(3, "massign-idx")))
			return []Stmt{&Assign{
				Targets: []Expr{Idx(N(t.name), i), N(a.name)},
				Exprs:   []Expr{N(a.name), &Paren{X: B("or", Idx(N(t.name), i), I(0))}},
			}}
		}
	}
	// more expressions than targets / fewer
	return []Stmt{&Assign{Targets: []Expr{N(a.name), N(b.name)}, Exprs: []Expr{g.intExpr(2, c), g.intExpr(2, c), g.intExpr(1, c)}}}
}

func (g *gen) ifStmt() []Stmt {
	st := &If{}
	n := 1 + g.n(3, "if-arms")
	for i := 0; i < n; i++ {
		st.Conds = append(st.Conds, g.boolExpr(3, newEctx()))
		st.Blocks = append(st.Blocks, g.nested())
	}
	if g.chance(50, "if-else") {
		st.HasElse = true
		st.Else = g.nested()
	}
	// truthiness of non-boolean values
	if g.chance(15, "if-truthy") {
		st.Conds[0] = g.anyExpr(2, newEctx())
	}
	return []Stmt{st}
}

func (g *gen) whileStmt() []Stmt {
	i := g.fresh("i")
	lim := int64(g.n(5, "while-n"))
	g.push()
	iv := g.declare(i, kInt)
	iv.const_ = true // only the loop increments it
	g.loopDepth++
	body := g.nested()
	g.loopDepth--
	g.pop()
	body = append(body, &Assign{Targets: []Expr{N(i)}, Exprs: []Expr{B("+", N(i), I(1))}})
	g.feat("while")
	// a `break`/goto in the body may skip the increment only when it leaves the loop
	return []Stmt{&Do{Body: []Stmt{
		&Local{Names: []string{i}, Exprs: []Expr{I(0)}},
		&While{Cond: B("<", N(i), I(lim)), Body: body},
	}}}
}

func (g *gen) repeatStmt() []Stmt {
	i := g.fresh("i")
	lim := int64(1 + g.n(4, "repeat-n"))
	g.push()
	g.declare(i, kInt).const_ = true
	g.loopDepth++
	inner := g.nested()
	g.loopDepth--
	g.pop()
	// the condition uses a local declared inside the body
	d := g.fresh("done")
	body := append([]Stmt{&Assign{Targets: []Expr{N(i)}, Exprs: []Expr{B("+", N(i), I(1))}}}, inner...)
	body = append(body, &Local{Names: []string{d}, Exprs: []Expr{B(">=", N(i), I(lim))}})
	g.feat("repeat")
	return []Stmt{&Do{Body: []Stmt{
		&Local{Names: []string{i}, Exprs: []Expr{I(0)}},
		&Repeat{Body: body, Cond: N(d)},
	}}}
}

func (g *gen) numForStmt() []Stmt {
	v := g.fresh("k")
	st := &NumFor{Var: v}
	c := newEctx()
	kindOfVar := kInt
	switch g.n(6, "for-form") {
	case 0, 1, 2:
		st.Start = I(int64(g.n(4, "for-start")))
		st.Limit = I(int64(g.n(6, "for-limit")))
	case 3:
		st.Start = I(int64(3 + g.n(4, "for-start-d")))
		st.Limit = I(int64(g.n(3, "for-limit-d")))
		st.Step = I(-int64(1 + g.n(2, "for-step-d")))
	case 4:
		// float loop
		st.Start = &Float{V: float64(g.n(4, "for-fstart")) / 2}
		st.Limit = I(int64(1 + g.n(3, "for-flimit")))
		st.Step = &Float{V: 0.5}
		kindOfVar = kFloat
	case 5:
		// near overflow: must stop without wrapping
		st.Start = B("-", Glob("math", "maxinteger"), I(int64(g.n(3, "for-ovf"))))
		st.Limit = Glob("math", "maxinteger")
		if g.chance(50, "for-ovf-step") {
			st.Step = I(int64(1 + g.n(3, "for-ovf-stepv")))
		}
		g.feat("for-overflow-edge")
	}
	if g.chance(20, "for-expr-bounds") {
		st.Limit = g.intExpr(1, c)
		// keep the trip count small: clamp with %
		st.Limit = B("%", st.Limit, I(6))
		st.Start = I(int64(g.n(3, "for-start2")))
		st.Step = nil
		kindOfVar = kInt
	}
	g.push()
	g.declare(v, kindOfVar) // assignable: assigning to the loop variable must not disturb the loop
	g.loopDepth++
	body := g.nested()
	g.loopDepth--
	g.pop()
	st.Body = body
	g.feat("numeric-for")
	return []Stmt{st}
}

func (g *gen) genForStmt() []Stmt {
	c := newEctx()
	g.feat("generic-for")
	switch g.n(6, "genfor-form") {
	case 4:
		// control values of every type: only nil ends the loop (false, 0 and ""
		// do not), the state and the initial control value reach the iterator
		// unchanged, extra iterator results are dropped, missing ones are nil
		g.feat("generic-for-control-values")
		vals := [][]Expr{
			{&False{}, I(1)}, {I(0), I(2)}, {S(""), I(3)}, {&Float{V: 0.5}, I(4)}, {&True{}, I(5)}, {&Table{}, I(6)},
		}
		n := 1 + g.n(len(vals), "ctl-n")
		start := g.n(len(vals), "ctl-start")
		i := g.fresh("i")
		var conds []Expr
		var blocks [][]Stmt
		for k := 0; k < n; k++ {
			v := vals[(start+k)%len(vals)]
			conds = append(conds, B("==", N(i), I(int64(k+1))))
			blocks = append(blocks, []Stmt{&Return{Exprs: []Expr{v[0], v[1], S("extra")}}})
		}
		a, b, cc := g.fresh("a"), g.fresh("b"), g.fresh("c")
		return []Stmt{&Do{Body: []Stmt{
			&Local{Names: []string{i}, Exprs: []Expr{I(0)}},
			&GenFor{Names: []string{a, b, cc}, Exprs: []Expr{
				&Func{Params: []string{"s", "ctl"}, Body: []Stmt{
					&Assign{Targets: []Expr{N(i)}, Exprs: []Expr{B("+", N(i), I(1))}},
					Emit(S("iter-called"), N("s"), C(N("type"), N("ctl"))),
					&If{Conds: conds, Blocks: blocks},
				}},
				S("state"), &False{},
			}, Body: []Stmt{Emit(S("ctl"), C(N("type"), N(a)), N(b), N(cc))}},
			Emit(S("ctl-done"), N(i)),
		}}}
	case 5:
		// pairs/next over tables whose only key is false, 0, "" or a float
		g.feat("generic-for-falsy-keys")
		key := []Expr{&False{}, I(0), S(""), &Float{V: 0.5}, &True{}}[g.n(5, "falsy-key")]
		k, v := g.fresh("k"), g.fresh("v")
		t := g.fresh("t")
		return []Stmt{
			&Local{Names: []string{t}, Exprs: []Expr{&Table{Items: []TItem{{Key: key, Val: S("only")}}}}},
			&GenFor{Names: []string{k, v}, Exprs: []Expr{C(N("pairs"), N(t))}, Body: []Stmt{Emit(S("pairs-key"), N(k), N(v))}},
			&GenFor{Names: []string{k, v}, Exprs: []Expr{N("next"), N(t)}, Body: []Stmt{Emit(S("next-key"), N(k), N(v))}},
			Emit(S("next-after"), C(N("next"), N(t))),
		}
	case 0:
		// ipairs over an array
		arr := g.pickVar(kArr, c, "genfor-arr")
		var src Expr
		if arr != nil {
			src = N(arr.name)
		} else {
			src = g.arrExpr(2, c)
		}
		i, x := g.fresh("i"), g.fresh("x")
		g.push()
		g.declare(i, kInt)
		g.declare(x, kInt)
		g.loopDepth++
		body := g.nested()
		g.loopDepth--
		g.pop()
		return []Stmt{&GenFor{Names: []string{i, x}, Exprs: []Expr{C(N("ipairs"), src)}, Body: body}}
	case 1:
		// pairs with commutative accumulation only (order is unspecified)
		arr := g.pickVar(kArr, c, "pairs-arr")
		if arr == nil {
			return g.numForStmt()
		}
		sum, cnt := g.fresh("sum"), g.fresh("cnt")
		k, x := g.fresh("k"), g.fresh("x")
		g.feat("pairs")
		return []Stmt{
			&Local{Names: []string{sum, cnt}, Exprs: []Expr{I(0), I(0)}},
			&GenFor{Names: []string{k, x}, Exprs: []Expr{C(N("pairs"), N(arr.name))}, Body: []Stmt{
				&Assign{Targets: []Expr{N(sum)}, Exprs: []Expr{B("+", N(sum), B("*", N(k), N(x)))}},
				&Assign{Targets: []Expr{N(cnt)}, Exprs: []Expr{B("+", N(cnt), I(1))}},
			}},
			Emit(S("pairs"), N(sum), N(cnt)),
		}
	case 2:
		// closure iterator (stateful)
		it, n, i := g.fresh("iter"), int64(g.n(5, "iter-n")), g.fresh("c")
		x := g.fresh("x")
		g.push()
		g.declare(x, kInt)
		g.loopDepth++
		body := g.nested()
		g.loopDepth--
		g.pop()
		g.feat("closure-iterator")
		return []Stmt{&Do{Body: []Stmt{
			&Local{Names: []string{i}, Exprs: []Expr{I(0)}},
			&LocalFunc{Name: it, F: &Func{Body: []Stmt{
				&Assign{Targets: []Expr{N(i)}, Exprs: []Expr{B("+", N(i), I(1))}},
				&If{Conds: []Expr{B("<=", N(i), I(n))}, Blocks: [][]Stmt{{&Return{Exprs: []Expr{B("*", N(i), N(i))}}}}},
			}}},
			&GenFor{Names: []string{x}, Exprs: []Expr{N(it)}, Body: body},
		}}}
	default:
		// stateless iterator with state and control values, two loop variables
		it := g.fresh("step")
		i, x := g.fresh("i"), g.fresh("x")
		n := int64(g.n(5, "stateless-n"))
		g.push()
		g.declare(i, kInt)
		g.declare(x, kInt)
		g.loopDepth++
		body := g.nested()
		g.loopDepth--
		g.pop()
		g.feat("stateless-iterator")
		return []Stmt{&Do{Body: []Stmt{
			&LocalFunc{Name: it, F: &Func{Params: []string{"s", "c"}, Body: []Stmt{
				&If{Conds: []Expr{B("<", N("c"), N("s"))}, Blocks: [][]Stmt{{&Return{Exprs: []Expr{B("+", N("c"), I(1)), B("-", N("s"), N("c"))}}}}},
			}}},
			&GenFor{Names: []string{i, x}, Exprs: []Expr{N(it), I(n), I(0)}, Body: body},
		}}}
	}
}

func (g *gen) doStmt() []Stmt {
	return []Stmt{&Do{Body: g.nested()}}
}

func (g *gen) breakStmt() []Stmt {
	g.feat("break")
	// break must be the last statement of its block: wrap in an if
	return []Stmt{&If{Conds: []Expr{g.boolExpr(2, newEctx())}, Blocks: [][]Stmt{{g.emitStmt(), &Break{}}}}}
}

func (g *gen) callStmt() []Stmt {
	c := newEctx()
	vs := g.visible(func(v *variable) bool { return v.k == kFunc && v.fn != nil && !v.fn.raises && !v.fn.yields })
	if len(vs) == 0 {
		return g.funcDefStmt()
	}
	v := vs[g.n(len(vs), "callstmt-fn")]
	return []Stmt{&CallStmt{Call: g.callExpr(v, 2, c)}}
}

func (g *gen) tableStmt() []Stmt {
	c := newEctx()
	t := g.pickVar(kArr, c, "table-arr")
	if t == nil {
		name := g.fresh("t")
		e := g.arrExpr(2, c)
		g.declare(name, kArr)
		return []Stmt{&Local{Names: []string{name}, Exprs: []Expr{e}}}
	}
	g.noteWrite(t)
	g.feat("table-update")
	switch g.n(5, "table-form") {
	case 0:
		// append
		return []Stmt{&Assign{Targets: []Expr{Idx(N(t.name), B("+", U("#", N(t.name)), I(1)))}, Exprs: []Expr{g.intExpr(2, c)}}}
	case 1:
		return []Stmt{&CallStmt{Call: C(Glob("table", "insert"), N(t.name), g.intExpr(2, c))}}
	case 2:
		// remove the last element (if any) and show it
		return []Stmt{Emit(S("removed"), C(Glob("table", "remove"), N(t.name)), U("#", N(t.name)))}
	case 3:
		// overwrite an existing slot or the next one (no holes)
		idx := g.fresh("ix")
		return []Stmt{
			&Local{Names: []string{idx}, Exprs: []Expr{B("+", B("%", g.intExpr(1, c), B("+", U("#", N(t.name)), I(1))), I(1))}},
			&Assign{Targets: []Expr{Idx(N(t.name), N(idx))}, Exprs: []Expr{g.intExpr(2, newEctx())}},
		}
	default:
		return []Stmt{Emit(S("concat"), C(Glob("table", "concat"), N(t.name), S(",")), C(N("select"), S("#"), C(Glob("table", "unpack"), N(t.name))))}
	}
}

func (g *gen) stringStmt() []Stmt {
	c := newEctx()
	g.feat("string-stmt")
	switch g.n(4, "string-form") {
	case 0:
		return []Stmt{Emit(B("..", g.strExpr(2, c), g.strExpr(2, c)), U("#", g.strExpr(2, c)))}
	case 1:
		// numeric strings in arithmetic, numbers in concatenation
		e := g.numStrExpr(c)
		return []Stmt{Emit(B("*", e, I(2)), B("..", I(int64(g.n(100, "cat-int"))), S("")), B("+", S("0x10"), S("1")), U("-", S("2")))}
	case 2:
		s := g.strExpr(2, c)
		return []Stmt{Emit(&MethCall{Obj: s, Name: "upper"}, &MethCall{Obj: S("MiXed"), Name: "lower"}, &MethCall{Obj: S("abc"), Name: "byte", Args: []Expr{I(1), I(-1)}})}
	default:
		return []Stmt{Emit(C(N("tonumber"), S([]string{"10", "0x1p4", "1e2", "  12  ", "abc", "", "1 2", "0x", "5."}[g.n(9, "tonumber-s")])), C(N("tostring"), g.intExpr(2, c)), C(Glob("math", "type"), g.anyExpr(1, c)))}
	}
}
