package luagen

import (
	"fmt"

	. "verif/internal/mlua"
)

// GridCase is one enumerated program.
type GridCase struct {
	Name  string
	Block []Stmt
}

// closer kinds for the grid
const (
	ckPlain = iota
	ckRaiseStr
	ckRaiseTbl
	ckNil
	ckFalse
	ckCoroutine // the handler itself creates, resumes, wraps and closes coroutines
	ckRaiseOwnTbc // the handler raises while it has a pending to-be-closed variable of its own
	ckOwnTbc      // the handler has to-be-closed variables of its own and returns normally
	ckYield       // the handler yields (only meaningful inside a coroutine)
	ckNumKinds
)

func gridCloser(id string, kind int) Expr {
	switch kind {
	case ckNil:
		return &Nil{}
	case ckFalse:
		return &False{}
	}
	body := []Stmt{Emit(S("close"), S(id), N("e"))}
	switch kind {
	case ckRaiseStr:
		body = append(body, &CallStmt{Call: C(N("error"), S("from-"+id), I(0))})
	case ckRaiseTbl:
		body = append(body, &CallStmt{Call: C(N("error"), &Table{Items: []TItem{{NameKey: "from", Val: S(id)}}})})
	case ckRaiseOwnTbc:
		body = append(body,
			&Local{Names: []string{"own"}, Attribs: []string{"close"}, Exprs: []Expr{gridCloser(id+"-own", ckPlain)}},
			&CallStmt{Call: C(N("error"), S("from-"+id), I(0))})
	case ckOwnTbc:
		body = append(body,
			&Local{Names: []string{"own"}, Attribs: []string{"close"}, Exprs: []Expr{gridCloser(id+"-own", ckPlain)}},
			&Do{Body: []Stmt{&Local{Names: []string{"own2"}, Attribs: []string{"close"}, Exprs: []Expr{gridCloser(id+"-own2", ckPlain)}}}},
			Emit(S("handler-end"), S(id)))
	case ckYield:
		body = append(body, Emit(S("handler-resumed"), S(id), C(N("pcall"), co("yield"), S("in-handler-"+id))))
	case ckCoroutine:
		body = append(body,
			&Local{Names: []string{"hco"}, Exprs: []Expr{C(co("create"), &Func{Params: []string{"a"}, Body: []Stmt{
				&Local{Names: []string{"b"}, Exprs: []Expr{C(co("yield"), B("+", N("a"), I(1)))}},
				&Return{Exprs: []Expr{B("*", N("b"), I(2))}},
			}})}},
			Emit(S("close-co-1"), S(id), C(co("resume"), N("hco"), I(1))),
			Emit(S("close-co-2"), S(id), C(co("resume"), N("hco"), I(5)), C(co("status"), N("hco"))),
			Emit(S("close-co-3"), S(id), C(co("close"), C(co("create"), &Func{}))),
			Emit(S("close-co-4"), S(id), C(C(co("wrap"), &Func{Body: []Stmt{&Return{Exprs: []Expr{I(7)}}}}))),
		)
	}
	return C(N("setmetatable"), &Table{Items: []TItem{{NameKey: "id", Val: S(id)}}},
		&Table{Items: []TItem{{NameKey: "__close", Val: &Func{Params: []string{"self", "e"}, Body: body}}}})
}

// exit kinds
const (
	exFall = iota
	exBreak
	exGoto
	exReturn
	exReturnVals
	exReturnCall
	exErrorStr
	exErrorTbl
	exRuntimeErr
	exYieldClose
	exYieldAbandon
	exNumKinds
)

var exitNames = []string{"fall", "break", "goto", "return", "return-vals", "return-call", "error-str", "error-tbl", "runtime-error", "yield-close", "yield-abandon"}

// construct kinds
const (
	coDo = iota
	coWhile
	coRepeat
	coNumFor
	coGenFor
	coFunc
	coPcall
	coCoroutine
	coNumKinds
)

var constructNames = []string{"do", "while", "repeat", "numfor", "genfor", "func", "pcall", "coroutine"}

type gridBuilder struct {
	n int
}

func (b *gridBuilder) id(p string) string {
	b.n++
	return fmt.Sprintf("%s%d", p, b.n)
}

// exitStmts builds the statements that leave the innermost scope.
func (b *gridBuilder) exitStmts(ex int, label string) []Stmt {
	switch ex {
	case exFall:
		return []Stmt{Emit(S("falling-off"))}
	case exBreak:
		return []Stmt{Emit(S("breaking")), &Break{}}
	case exGoto:
		return []Stmt{Emit(S("jumping")), &Goto{Label: label}}
	case exReturn:
		return []Stmt{Emit(S("returning")), &Return{}}
	case exReturnVals:
		return []Stmt{&Return{Exprs: []Expr{C(N("tick"), S("retval1")), S("v2")}}}
	case exReturnCall:
		return []Stmt{&Return{Exprs: []Expr{C(N("tick"), S("tail-candidate"))}}}
	case exErrorStr:
		return []Stmt{&CallStmt{Call: C(N("error"), S("boom"))}}
	case exErrorTbl:
		return []Stmt{&CallStmt{Call: C(N("error"), N("ERR"))}}
	case exRuntimeErr:
		return []Stmt{Emit(B("+", N("NILV"), I(1)))}
	case exYieldClose, exYieldAbandon:
		return []Stmt{Emit(S("yielding")), &CallStmt{Call: C(Glob("coroutine", "yield"), S("y"))}, Emit(S("resumed-again"))}
	}
	panic("bad exit")
}

func isLoop(c int) bool { return c == coWhile || c == coRepeat || c == coNumFor || c == coGenFor }

// wrap puts body inside construct c. The returned statements run it and emit
// what comes out. first: this is the outermost construct.
func (b *gridBuilder) wrap(c int, body []Stmt, ex int) []Stmt {
	switch c {
	case coDo:
		return []Stmt{&Do{Body: body}, Emit(S("after-do"))}
	case coWhile:
		i := b.id("w")
		body = append([]Stmt{&Assign{Targets: []Expr{N(i)}, Exprs: []Expr{B("+", N(i), I(1))}}}, body...)
		return []Stmt{&Local{Names: []string{i}, Exprs: []Expr{I(0)}}, &While{Cond: B("<", N(i), I(2)), Body: body}, Emit(S("after-while"), N(i))}
	case coRepeat:
		i := b.id("r")
		body = append([]Stmt{&Assign{Targets: []Expr{N(i)}, Exprs: []Expr{B("+", N(i), I(1))}}}, body...)
		return []Stmt{&Local{Names: []string{i}, Exprs: []Expr{I(0)}}, &Repeat{Body: body, Cond: B(">=", N(i), I(2))}, Emit(S("after-repeat"), N(i))}
	case coNumFor:
		return []Stmt{&NumFor{Var: b.id("k"), Start: I(1), Limit: I(2), Body: body}, Emit(S("after-for"))}
	case coGenFor:
		// generic for with a closing value (4th value of the explist)
		cid := b.id("forclose")
		return []Stmt{&GenFor{Names: []string{b.id("i"), b.id("x")},
			Exprs: []Expr{N("next"), &Table{Items: []TItem{{Val: I(10)}}}, &Nil{}, gridCloser(cid, ckPlain)}, Body: body}, Emit(S("after-genfor"))}
	case coFunc:
		f := b.id("fn")
		return []Stmt{&LocalFunc{Name: f, F: &Func{Body: body}}, Emit(S("func-returned"), C(N(f)))}
	case coPcall:
		return []Stmt{Emit(S("pcall-returned"), C(N("pcall"), &Func{Body: body}))}
	case coCoroutine:
		co := b.id("co")
		out := []Stmt{
			&Local{Names: []string{co}, Exprs: []Expr{C(Glob("coroutine", "create"), &Func{Body: body})}},
			Emit(S("resume1"), C(Glob("coroutine", "resume"), N(co))),
			Emit(S("status1"), C(Glob("coroutine", "status"), N(co))),
		}
		switch ex {
		case exYieldClose:
			out = append(out, Emit(S("close"), C(Glob("coroutine", "close"), N(co))), Emit(S("status2"), C(Glob("coroutine", "status"), N(co))))
		case exYieldAbandon:
			out = append(out, Emit(S("abandoned")))
		default:
			out = append(out, Emit(S("close-dead"), C(Glob("coroutine", "close"), N(co))))
		}
		return out
	}
	panic("bad construct")
}

// CloseGrid enumerates programs: constructs nested to the given depth, with
// to-be-closed declarations at every level, crossed with every exit kind at
// the innermost position and handler behaviours.
func CloseGrid(depth int) []GridCase {
	var out []GridCase
	prelude := func() []Stmt {
		return []Stmt{
			&Local{Names: []string{"ERR", "NILV"}, Exprs: []Expr{&Table{Items: []TItem{{NameKey: "tag", Val: S("err-table")}}}}},
			&LocalFunc{Name: "tick", F: &Func{Params: []string{"x"}, Body: []Stmt{Emit(S("tick"), N("x")), &Return{Exprs: []Expr{N("x"), S("second")}}}}},
		}
	}
	var rec func(levels []int)
	build := func(levels []int, ex int, nOuter, nInner int, kinds []int) (GridCase, bool) {
		b := &gridBuilder{}
		inner := levels[len(levels)-1]
		// validity of the exit for this nesting
		switch ex {
		case exBreak:
			if !isLoop(inner) {
				return GridCase{}, false
			}
		case exYieldClose, exYieldAbandon:
			hasCo := false
			for _, l := range levels {
				if l == coCoroutine {
					hasCo = true
				}
			}
			if !hasCo {
				return GridCase{}, false
			}
		case exGoto:
			// a goto cannot leave a function
			if inner == coFunc || inner == coPcall || inner == coCoroutine {
				return GridCase{}, false
			}
		}
		label := "out"
		ki := 0
		decls := func(n int, tag string) []Stmt {
			var ds []Stmt
			for i := 0; i < n; i++ {
				id := b.id(tag)
				k := kinds[ki%len(kinds)]
				ki++
				ds = append(ds, &Local{Names: []string{id}, Attribs: []string{"close"}, Exprs: []Expr{gridCloser(id, k)}})
				ds = append(ds, Emit(S("declared"), S(id)))
			}
			return ds
		}
		// innermost body
		body := append(decls(nInner, "in"), b.exitStmts(ex, label)...)
		// goto target: directly after the innermost construct, inside the next level
		stmts := b.wrap(inner, body, ex)
		if ex == exGoto {
			stmts = []Stmt{&Do{Body: stmts}, Emit(S("skipped-by-goto")), &Label{Name: label}, Emit(S("at-label"))}
			// the jump leaves one more scope (the do-block)
		}
		for li := len(levels) - 2; li >= 0; li-- {
			pre := decls(nOuter, fmt.Sprintf("l%d_", li))
			stmts = b.wrap(levels[li], append(pre, stmts...), ex)
		}
		name := ""
		for _, l := range levels {
			name += constructNames[l] + ">"
		}
		name += exitNames[ex] + fmt.Sprintf("/outer%d/inner%d/kinds%v", nOuter, nInner, kinds)
		return GridCase{Name: name, Block: append(prelude(), append(stmts, Emit(S("program-end")))...)}, true
	}
	kindSets := [][]int{{ckPlain}, {ckPlain, ckRaiseStr}, {ckRaiseTbl, ckPlain}, {ckNil, ckPlain, ckFalse}, {ckRaiseStr, ckRaiseTbl}, {ckCoroutine, ckPlain}, {ckPlain, ckRaiseOwnTbc}, {ckRaiseOwnTbc, ckOwnTbc}}
	rec = func(levels []int) {
		if len(levels) == depth {
			for ex := 0; ex < exNumKinds; ex++ {
				for _, nOuter := range []int{0, 1} {
					if len(levels) == 1 && nOuter == 1 {
						continue
					}
					for _, nInner := range []int{1, 2} {
						for _, ks := range kindSets {
							if gc, ok := build(levels, ex, nOuter, nInner, ks); ok {
								out = append(out, gc)
							}
						}
					}
				}
			}
			return
		}
		for c := 0; c < coNumKinds; c++ {
			rec(append(append([]int{}, levels...), c))
		}
	}
	for d := 1; d <= depth; d++ {
		depthSaved := depth
		depth = d
		rec(nil)
		depth = depthSaved
	}
	return out
}
