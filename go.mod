module verif

go 1.23

require (
	github.com/arnodel/golua v0.0.0
	pgregory.net/rapid v1.3.0
)

require github.com/arnodel/strftime v0.1.6 // indirect

replace github.com/arnodel/golua => /repo
